module verif

go 1.25.0

require (
	github.com/danielgtaylor/huma/v2 v2.37.3
	github.com/els0r/goProbe/v4 v4.0.0
	github.com/els0r/telemetry/logging v0.0.0-20260406010724-0c813ed6284d
	github.com/fako1024/gotools/bitpack v0.0.0-20260108133916-d42cb4e89f05
	github.com/fako1024/gotools/concurrency v0.0.0-20260108133916-d42cb4e89f05
	github.com/fako1024/gotools/link v0.0.0-20260511092824-089d64760c34
	github.com/fako1024/slimcap v1.0.12
	github.com/gin-gonic/gin v1.12.0
	github.com/json-iterator/go v1.1.12
	golang.org/x/net v0.55.0
	golang.org/x/time v0.15.0
)

require (
	github.com/beorn7/perks v1.0.1 // indirect
	github.com/cenkalti/backoff/v5 v5.0.3 // indirect
	github.com/cespare/xxhash/v2 v2.3.0 // indirect
	github.com/els0r/telemetry/metrics v0.0.0-20260406010724-0c813ed6284d // indirect
	github.com/els0r/telemetry/tracing v0.0.0-20260406010724-0c813ed6284d // indirect
	github.com/fako1024/httpc v1.1.3 // indirect
	github.com/felixge/httpsnoop v1.0.4 // indirect
	github.com/fsnotify/fsnotify v1.10.1 // indirect
	github.com/gabriel-vasile/mimetype v1.4.13 // indirect
	github.com/getkin/kin-openapi v0.144.0 // indirect
	github.com/gin-contrib/cors v1.7.7 // indirect
	github.com/gin-contrib/pprof v1.5.4 // indirect
	github.com/gin-contrib/sse v1.1.1 // indirect
	github.com/go-logr/logr v1.4.3 // indirect
	github.com/go-logr/stdr v1.2.2 // indirect
	github.com/go-openapi/jsonpointer v0.23.1 // indirect
	github.com/go-openapi/swag/jsonname v0.26.0 // indirect
	github.com/go-playground/locales v0.14.1 // indirect
	github.com/go-playground/universal-translator v0.18.1 // indirect
	github.com/go-playground/validator/v10 v10.30.2 // indirect
	github.com/go-viper/mapstructure/v2 v2.5.0 // indirect
	github.com/goccy/go-yaml v1.19.2 // indirect
	github.com/google/uuid v1.6.0 // indirect
	github.com/grpc-ecosystem/grpc-gateway/v2 v2.29.0 // indirect
	github.com/klauspost/compress v1.18.6 // indirect
	github.com/klauspost/cpuid/v2 v2.3.0 // indirect
	github.com/leodido/go-urn v1.4.0 // indirect
	github.com/mattn/go-isatty v0.0.22 // indirect
	github.com/modern-go/concurrent v0.0.0-20180306012644-bacd9c7ef1dd // indirect
	github.com/modern-go/reflect2 v1.0.2 // indirect
	github.com/munnerz/goautoneg v0.0.0-20191010083416-a7dc8b61c822 // indirect
	github.com/oasdiff/yaml v0.1.1 // indirect
	github.com/oasdiff/yaml3 v0.0.14 // indirect
	github.com/pelletier/go-toml/v2 v2.3.1 // indirect
	github.com/pierrec/lz4/v4 v4.1.26 // indirect
	github.com/prometheus/client_golang v1.23.2 // indirect
	github.com/prometheus/client_model v0.6.2 // indirect
	github.com/prometheus/common v0.67.5 // indirect
	github.com/prometheus/procfs v0.20.1 // indirect
	github.com/quic-go/qpack v0.6.0 // indirect
	github.com/quic-go/quic-go v0.59.1 // indirect
	github.com/sagikazarmark/locafero v0.12.0 // indirect
	github.com/santhosh-tekuri/jsonschema/v6 v6.0.2 // indirect
	github.com/spf13/afero v1.15.0 // indirect
	github.com/spf13/cast v1.10.0 // indirect
	github.com/spf13/cobra v1.10.2 // indirect
	github.com/spf13/pflag v1.0.10 // indirect
	github.com/spf13/viper v1.21.0 // indirect
	github.com/subosito/gotenv v1.6.0 // indirect
	github.com/ugorji/go/codec v1.3.1 // indirect
	github.com/zeebo/xxh3 v1.1.0 // indirect
	go.mongodb.org/mongo-driver/v2 v2.6.0 // indirect
	go.opentelemetry.io/auto/sdk v1.2.1 // indirect
	go.opentelemetry.io/contrib/instrumentation/github.com/gin-gonic/gin/otelgin v0.68.0 // indirect
	go.opentelemetry.io/contrib/instrumentation/net/http/otelhttp v0.68.0 // indirect
	go.opentelemetry.io/contrib/propagators/b3 v1.43.0 // indirect
	go.opentelemetry.io/otel v1.43.0 // indirect
	go.opentelemetry.io/otel/exporters/otlp/otlptrace v1.43.0 // indirect
	go.opentelemetry.io/otel/exporters/otlp/otlptrace/otlptracegrpc v1.43.0 // indirect
	go.opentelemetry.io/otel/exporters/stdout/stdouttrace v1.43.0 // indirect
	go.opentelemetry.io/otel/metric v1.43.0 // indirect
	go.opentelemetry.io/otel/sdk v1.43.0 // indirect
	go.opentelemetry.io/otel/trace v1.43.0 // indirect
	go.opentelemetry.io/proto/otlp v1.10.0 // indirect
	go.yaml.in/yaml/v2 v2.4.4 // indirect
	go.yaml.in/yaml/v3 v3.0.4 // indirect
	golang.org/x/crypto v0.52.0 // indirect
	golang.org/x/sys v0.45.0 // indirect
	golang.org/x/text v0.37.0 // indirect
	google.golang.org/genproto/googleapis/api v0.0.0-20260504160031-60b97b32f348 // indirect
	google.golang.org/genproto/googleapis/rpc v0.0.0-20260504160031-60b97b32f348 // indirect
	google.golang.org/grpc v1.82.1 // indirect
	google.golang.org/protobuf v1.36.11 // indirect
	gopkg.in/yaml.v3 v3.0.1 // indirect
)

replace github.com/els0r/goProbe/v4 => /repo

replace github.com/els0r/goProbe/plugins/contrib/v4 => /repo/plugins/contrib
