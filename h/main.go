// Package h is the harness framework shared by all simulation engines: it runs batches of seeded
// runs of a property function, replays and minimises failing tapes, matches known findings and
// writes a worker result file for the driver (cmd/check).
package h

import (
	"encoding/json"
	"fmt"
	"os"
	"runtime"
	"runtime/debug"
	"strconv"
	"strings"
	"testing"
	"testing/synctest"
	"time"

	"verif/sim"
	"verif/simfs"
)

// Prop is one property check of an engine.
type Prop struct {
	ID  string
	Run func(r *sim.R) *sim.Violation
	// Bubble runs each simulated run inside a testing/synctest bubble (fake clock).
	Bubble bool
	// Rule documents what makes a run non-trivial (copied into the evidence).
	Rule string
	// Real / Stub components (evidence).
	Real, Stub []string
	// Assumptions (evidence).
	Assumptions []string
	// RuntimeRandom marks properties whose runs depend on a source of randomness no seed controls
	// (Go map iteration order inside goProbe): replays and minimisation steps are retried.
	RuntimeRandom bool
}

// HarnessError marks a failure of the machinery (exit 2, never a violation).
type HarnessError struct{ Msg string }

func (e HarnessError) Error() string { return "harness error: " + e.Msg }

// Fatalf panics with a HarnessError.
func Fatalf(format string, a ...any) { panic(HarnessError{fmt.Sprintf(format, a...)}) }

// VRec is a violation as recorded in worker results and replay files.
type VRec struct {
	Property  string   `json:"property"`
	Clause    string   `json:"clause"`
	Signature string   `json:"signature"`
	Detail    string   `json:"detail"`
	Seed      int64    `json:"batch_seed"`
	RunIndex  int      `json:"run_index"`
	RunSeed   uint64   `json:"run_seed"`
	Tape      []uint64 `json:"tape"`
	TapeOrig  int      `json:"tape_len_before_minimisation"`
	MinTries  int      `json:"minimisation_executions"`
	Trace     []string `json:"trace"`
	Count     int      `json:"count"`
	RepoHead  string   `json:"repo_head,omitempty"`
	Engine    string   `json:"engine,omitempty"`
	// RuntimeRandom: the run declared that it depends on Go map iteration order inside goProbe
	RuntimeRandom bool `json:"runtime_random,omitempty"`
}

// Known is one entry of known_findings.json.
type Known struct {
	Property  string `json:"property"`
	Clause    string `json:"clause"`
	Signature string `json:"signature"`
	What      string `json:"what"`
	Status    string `json:"status"` // "open" or "fixed: <commit>"
}

// WorkerResult is what one worker process reports.
type WorkerResult struct {
	Property    string         `json:"property"`
	Evaluations int            `json:"evaluations"`
	Nontrivial  []uint64       `json:"nontrivial_hashes"`
	AllHashes   int            `json:"all_hashes"`
	Faults      map[string]int `json:"faults"`
	Probes      map[string]int `json:"probes"`
	Steps       int64          `json:"steps"`
	SimTimeNs   int64          `json:"sim_time_ns"`
	Violations  []VRec         `json:"violations"`
	KnownHits   []VRec         `json:"known_hits"`
	Samples     []any          `json:"samples"`
	HarnessErr  string         `json:"harness_error,omitempty"`
	WallS       float64        `json:"wall_s"`
	Rule        string         `json:"rule"`
	Real        []string       `json:"real"`
	Stub        []string       `json:"stub"`
	Assumptions []string       `json:"assumptions"`
	Shapes      map[string]int `json:"shapes,omitempty"`
	DetHashes   map[int]uint64 `json:"det_hashes,omitempty"` // run index -> event-log hash (selftest)
}

func env(k, def string) string {
	if v := os.Getenv(k); v != "" {
		return v
	}
	return def
}

func envInt(k string, def int64) int64 {
	if v := os.Getenv(k); v != "" {
		n, err := strconv.ParseInt(v, 10, 64)
		if err != nil {
			Fatalf("bad %s=%q", k, v)
		}
		return n
	}
	return def
}

func loadKnown(path string) []Known {
	if path == "" {
		return nil
	}
	b, err := os.ReadFile(path)
	if err != nil {
		return nil
	}
	var ks []Known
	if err := json.Unmarshal(b, &ks); err != nil {
		Fatalf("known findings file %s: %v", path, err)
	}
	return ks
}

// exec runs the property once from a tape. Panics from goProbe code become violations of clause
// "panic"; panics from the machinery are re-panicked as HarnessError.
func exec(t *testing.T, p *Prop, tape *sim.Tape, trace bool, known []Known) (r *sim.R, v *sim.Violation) {
	r = sim.NewR(tape, trace)
	r.Prop = p.ID
	r.IsKnown = func(v *sim.Violation) bool {
		for _, k := range known {
			if k.Property == v.Prop && k.Clause == v.Clause && k.Signature == v.Signature && k.Status == "open" {
				return true
			}
		}
		return false
	}
	body := func() {
		defer func() {
			if rec := recover(); rec != nil {
				v = classifyPanic(p.ID, rec, debug.Stack())
			}
		}()
		v = p.Run(r)
	}
	if p.Bubble {
		func() {
			defer func() {
				if rec := recover(); rec != nil {
					// end-of-bubble complaints (leaked blocked goroutines) are diagnostics
					msg := fmt.Sprint(rec)
					if strings.Contains(msg, "blocked goroutines remain") || strings.Contains(msg, "deadlock") {
						r.Probe("bubble_teardown_leak")
						if v == nil && strings.Contains(msg, "all goroutines in bubble are blocked") {
							v = &sim.Violation{Prop: p.ID, Clause: "deadlock", Signature: "all goroutines blocked", Detail: msg}
						}
						return
					}
					panic(rec)
				}
			}()
			synctest.Test(t, func(t *testing.T) { body() })
		}()
	} else {
		body()
	}
	if v != nil {
		v.Prop = p.ID
	}
	return r, v
}

func classifyPanic(id string, rec any, stack []byte) *sim.Violation {
	if he, ok := rec.(HarnessError); ok {
		panic(he)
	}
	if he, ok := rec.(simfs.HarnessError); ok {
		panic(HarnessError{he.Msg})
	}
	if pp, ok := rec.(*simfs.ProcPanic); ok {
		return classifyPanic(id, pp.Val, pp.Stack)
	}
	// find the first frame after the panic that is not runtime: goProbe => violation, verif => harness
	lines := strings.Split(string(stack), "\n")
	top := ""
	seenPanic := false
	for _, l := range lines {
		if strings.HasPrefix(l, "panic(") {
			seenPanic = true
			continue
		}
		if !seenPanic || strings.HasPrefix(l, "\t") || l == "" {
			continue
		}
		if strings.HasPrefix(l, "runtime.") || strings.HasPrefix(l, "runtime/") {
			continue
		}
		top = l
		break
	}
	fn := top
	if i := strings.LastIndex(fn, "("); i > 0 {
		fn = fn[:i]
	}
	if strings.HasPrefix(fn, "verif/") || fn == "" {
		panic(HarnessError{fmt.Sprintf("panic in harness code (%s): %v\n%s", fn, rec, stack)})
	}
	det := fmt.Sprintf("panic: %v\n%s", rec, trimStack(stack))
	return &sim.Violation{Prop: id, Clause: "panic", Signature: "panic in " + fn, Detail: det}
}

func trimStack(s []byte) string {
	lines := strings.Split(string(s), "\n")
	if len(lines) > 40 {
		lines = lines[:40]
	}
	return strings.Join(lines, "\n")
}

// Main is called from the single Test function of an engine's test binary.
func Main(t *testing.T, props []*Prop) {
	id := os.Getenv("VERIF_PROP")
	if id == "" {
		t.Skip("VERIF_PROP not set (run through ./check)")
	}
	var p *Prop
	for _, c := range props {
		if c.ID == id {
			p = c
		}
	}
	if p == nil {
		t.Fatalf("engine has no property %s", id)
	}
	out := env("VERIF_OUT", "")
	res := &WorkerResult{Property: id, Faults: map[string]int{}, Probes: map[string]int{}, Rule: p.Rule, Real: p.Real, Stub: p.Stub,
		Assumptions: p.Assumptions, Shapes: map[string]int{}}
	start := time.Now()
	defer func() {
		if rec := recover(); rec != nil {
			res.HarnessErr = fmt.Sprintf("%v\n%s", rec, trimStack(debug.Stack()))
		}
		res.WallS = time.Since(start).Seconds()
		if out != "" {
			b, _ := json.Marshal(res)
			if err := os.WriteFile(out, b, 0o644); err != nil {
				t.Fatalf("write result: %v", err)
			}
		}
		if res.HarnessErr != "" {
			t.Fatalf("HARNESS ERROR: %s", res.HarnessErr)
		}
	}()
	known := loadKnown(env("VERIF_KNOWN", ""))
	switch mode := env("VERIF_MODE", "batch"); mode {
	case "batch":
		batch(t, p, res, known)
	case "replay":
		replay(t, p, res, known)
	default:
		Fatalf("unknown VERIF_MODE %q", mode)
	}
}

func batch(t *testing.T, p *Prop, res *WorkerResult, known []Known) {
	seed := envInt("VERIF_SEED", 1)
	from := int(envInt("VERIF_FROM", 0))
	to := int(envInt("VERIF_TO", 100))
	stride := int(envInt("VERIF_STRIDE", 1))
	budget := time.Duration(envInt("VERIF_BUDGET_S", 60)) * time.Second
	minBudget := time.Duration(envInt("VERIF_MIN_BUDGET_S", 45)) * time.Second
	det := os.Getenv("VERIF_DET") != ""
	if det {
		res.DetHashes = map[int]uint64{}
	}
	deadline := time.Now().Add(budget)
	seen := map[uint64]bool{}
	seenAll := map[uint64]bool{}
	byClass := map[string]*VRec{}
	knownBy := map[string]*VRec{}
	for i := from; i < to; i += stride {
		if time.Now().After(deadline) && !det {
			break
		}
		rs := sim.DeriveSeed(seed, p.ID, i)
		if cur := os.Getenv("VERIF_OUT"); cur != "" {
			// marker for the driver: which run was executing if the process dies (a panic in a
			// goroutine started by goProbe cannot be recovered here)
			_ = os.WriteFile(cur+".current", []byte(fmt.Sprintf("%d %d %d", i, rs, res.Evaluations)), 0o644)
		}
		wantTrace := len(res.Samples) < 2
		traceDir := os.Getenv("VERIF_TRACE_DIR")
		r, v := exec(t, p, sim.NewTape(rs), wantTrace || traceDir != "", known)
		if traceDir != "" {
			_ = os.WriteFile(fmt.Sprintf("%s/run-%d.trace", traceDir, i), []byte(strings.Join(r.Trace(), "\n")+fmt.Sprintf("\nhash=%x tape=%d\n", r.Hash(), len(r.T.Rec))), 0o644)
		}
		res.Evaluations++
		if det {
			res.DetHashes[i] = r.Hash()
			if r.RuntimeRandom {
				res.DetHashes[i] = 0 // declared dependent on Go map order: not comparable
			}
		}
		for k, n := range r.Faults {
			res.Faults[k] += n
		}
		for k, n := range r.Probes {
			res.Probes[k] += n
		}
		res.Steps += int64(r.Steps)
		res.SimTimeNs += r.SimTimeNs
		key := r.Hash()
		if !seenAll[key] {
			seenAll[key] = true
		}
		if r.Nontriv && !seen[key] {
			seen[key] = true
			res.Nontrivial = append(res.Nontrivial, key)
		}
		if r.Shape != "" {
			res.Shapes[r.Shape]++
		}
		if wantTrace && r.Nontriv && v == nil {
			tr := r.Trace()
			if len(tr) > 60 {
				tr = append(tr[:60:60], fmt.Sprintf("… (%d more events)", len(r.Trace())-60))
			}
			res.Samples = append(res.Samples, map[string]any{"run_index": i, "run_seed": rs, "trace": tr})
		}
		for _, k := range r.Known {
			c := k.Class()
			if kr, ok := knownBy[c]; ok {
				kr.Count++
			} else {
				knownBy[c] = &VRec{Property: p.ID, Clause: k.Clause, Signature: k.Signature, Detail: k.Detail, Seed: seed, RunIndex: i, RunSeed: rs, Count: 1}
			}
		}
		if v != nil {
			c := v.Class()
			if vr, ok := byClass[c]; ok {
				vr.Count++
				continue
			}
			vr := &VRec{Property: p.ID, Clause: v.Clause, Signature: v.Signature, Detail: v.Detail, Seed: seed, RunIndex: i, RunSeed: rs,
				Tape: append([]uint64(nil), r.T.Rec...), TapeOrig: len(r.T.Rec), Count: 1, RuntimeRandom: r.RuntimeRandom}
			byClass[c] = vr
			if len(byClass) <= 3 {
				minimise(t, p, vr, c, known, minBudget)
			}
		}
	}
	res.AllHashes = len(seenAll)
	for _, c := range sortedKeys(byClass) {
		res.Violations = append(res.Violations, *byClass[c])
	}
	for _, c := range sortedKeys(knownBy) {
		res.KnownHits = append(res.KnownHits, *knownBy[c])
	}
}

func sortedKeys(m map[string]*VRec) []string { return sim.SortedKeys(m) }

func minimise(t *testing.T, p *Prop, vr *VRec, class string, known []Known, budget time.Duration) {
	still := func(vals []uint64) bool {
		n := 1
		if p.RuntimeRandom || vr.RuntimeRandom {
			n = 3
		}
		for i := 0; i < n; i++ {
			if _, v := exec(t, p, sim.ReplayTape(vals), false, known); v != nil && v.Class() == class {
				return true
			}
		}
		return false
	}
	// the recorded tape must reproduce in-process first; otherwise keep it unminimised
	if !still(vr.Tape) {
		vr.Trace = []string{"WARNING: violation did not reproduce from its own tape in-process"}
		return
	}
	vr.Tape, vr.MinTries = sim.Minimise(vr.Tape, still, 2000, budget)
	r, v := exec(t, p, sim.ReplayTape(vr.Tape), true, known)
	if v != nil {
		vr.Detail = v.Detail
	}
	vr.Trace = r.Trace()
}

// ReplayFile is the on-disk replay format.
type ReplayFile struct {
	VRec
	Note string `json:"note"`
}

func replay(t *testing.T, p *Prop, res *WorkerResult, known []Known) {
	path := env("VERIF_REPLAY", "")
	b, err := os.ReadFile(path)
	if err != nil {
		Fatalf("read replay file: %v", err)
	}
	var rf ReplayFile
	if err := json.Unmarshal(b, &rf); err != nil {
		Fatalf("parse replay file: %v", err)
	}
	// known findings other than the file's own class stay suppressed, so that the run reaches the
	// recorded violation; the file's own class is never suppressed: it must reproduce
	var known2 []Known
	for _, k := range known {
		if !(k.Clause == rf.Clause && k.Signature == rf.Signature) {
			known2 = append(known2, k)
		}
	}
	tries := 1
	if strings.Contains(rf.Clause, "runtime-random") || p.RuntimeRandom || rf.RuntimeRandom {
		tries = 8
	}
	wantClass := rf.Property + "/" + rf.Clause + "/" + rf.Signature
	for i := 0; i < tries; i++ {
		tape := sim.ReplayTape(rf.Tape)
		if len(rf.Tape) == 0 && rf.RunSeed != 0 {
			tape = sim.NewTape(rf.RunSeed) // crash records carry the run seed only
		}
		r, v := exec(t, p, tape, true, known2)
		res.Evaluations++
		if v != nil && v.Class() != wantClass && i < tries-1 {
			continue // another outcome of the runtime-random choice: try again
		}
		if v != nil {
			res.Violations = append(res.Violations, VRec{Property: p.ID, Clause: v.Clause, Signature: v.Signature, Detail: v.Detail, Tape: rf.Tape, Trace: r.Trace(), Count: 1})
			fmt.Printf("REPLAY property=%s clause=%s signature=%q\n%s\n", p.ID, v.Clause, v.Signature, sim.Indent(v.Detail))
			for _, l := range r.Trace() {
				fmt.Println("  | " + l)
			}
			return
		}
	}
	fmt.Printf("REPLAY property=%s: no violation\n", p.ID)
}

// Thorough reports whether the thorough tier is running.
func Thorough() bool { return os.Getenv("VERIF_TIER") == "thorough" }

// GoroutineCount is a diagnostic helper.
func GoroutineCount() int { return runtime.NumGoroutine() }
