// Package rewrite produces the build-time seam: copies of goProbe source files in which calls on
// package os that touch the file system go to verif/simfs, *os.File becomes *simfs.File and (in
// selected packages) sync.Mutex/RWMutex become verif/simsync types. The copies are handed to the
// go tool with -overlay; /repo is never modified.
package rewrite

import (
	"bytes"
	"encoding/json"
	"fmt"
	"go/ast"
	"go/format"
	"go/parser"
	"go/token"
	"os"
	"path/filepath"
	"strconv"
	"strings"
)

// fsFuncs are the os identifiers redirected to simfs.
var fsFuncs = map[string]bool{
	"Open": true, "OpenFile": true, "Create": true, "CreateTemp": true, "MkdirTemp": true,
	"Mkdir": true, "MkdirAll": true, "Rename": true, "Remove": true, "RemoveAll": true,
	"ReadDir": true, "ReadFile": true, "WriteFile": true, "Stat": true, "Lstat": true,
	"Chmod": true, "Truncate": true, "File": true,
}

// unmodelled are identifiers that touch the file system and have no simulated counterpart: the
// rewrite fails closed when it meets one.
var unmodelled = map[string]map[string]bool{
	"os": {"Link": true, "Symlink": true, "Readlink": true, "Chown": true, "Lchown": true, "Chtimes": true,
		"DirFS": true, "CopyFS": true, "NewFile": true, "Chdir": true, "SameFile": true, "Pipe": true, "OpenRoot": true, "OpenInRoot": true},
	"ioutil":   {"ReadFile": true, "WriteFile": true, "ReadDir": true, "TempFile": true, "TempDir": true},
	"filepath": {"Walk": true, "WalkDir": true, "Glob": true, "EvalSymlinks": true},
	"syscall": {"Open": true, "Rename": true, "Unlink": true, "Mkdir": true, "Rmdir": true, "Fsync": true, "Flock": true,
		"Mmap": true, "Ftruncate": true, "Truncate": true, "Link": true, "Symlink": true, "Fdatasync": true, "Sync": true},
	"unix": {"Open": true, "Rename": true, "Unlink": true, "Mkdir": true, "Rmdir": true, "Fsync": true, "Flock": true,
		"Mmap": true, "Ftruncate": true, "Truncate": true, "Renameat2": true, "Fdatasync": true, "Sync": true},
}

// Spec selects what to rewrite.
type Spec struct {
	Repo     string   // repository root
	FSPkgs   []string // package dirs (relative) whose os calls are redirected
	SyncPkgs []string // package dirs (relative) whose sync.Mutex/RWMutex are redirected
	// Patches are textual mutations applied before rewriting (sensitivity mutants): file (relative)
	// -> list of [old,new] pairs; each old must occur exactly once.
	Patches map[string][][2]string
}

// Result describes what was rewritten.
type Result struct {
	OverlayPath string
	Files       []string
	FSSites     int
	SyncSites   int
}

// UnmodelledError is returned when a file uses a file-system call with no simulated counterpart.
type UnmodelledError struct{ File, Call string }

func (e *UnmodelledError) Error() string {
	return fmt.Sprintf("unmodelled file-system call %s in %s", e.Call, e.File)
}

func importName(f *ast.File, pathWanted string) (string, *ast.ImportSpec) {
	for _, im := range f.Imports {
		p, _ := strconv.Unquote(im.Path.Value)
		if p == pathWanted {
			if im.Name != nil {
				return im.Name.Name, im
			}
			return filepath.Base(pathWanted), im
		}
	}
	return "", nil
}

// Run rewrites the selected packages into outDir and writes outDir/overlay.json.
func Run(spec Spec, outDir string) (*Result, error) {
	res := &Result{}
	overlay := map[string]string{}
	pkgs := map[string][2]bool{}
	for _, p := range spec.FSPkgs {
		v := pkgs[p]
		v[0] = true
		pkgs[p] = v
	}
	for _, p := range spec.SyncPkgs {
		v := pkgs[p]
		v[1] = true
		pkgs[p] = v
	}
	patched := map[string]bool{}
	for rel, flags := range pkgs {
		dir := filepath.Join(spec.Repo, rel)
		ents, err := os.ReadDir(dir)
		if err != nil {
			return nil, err
		}
		for _, e := range ents {
			name := e.Name()
			if e.IsDir() || !strings.HasSuffix(name, ".go") || strings.HasSuffix(name, "_test.go") {
				continue
			}
			src, err := os.ReadFile(filepath.Join(dir, name))
			if err != nil {
				return nil, err
			}
			relFile := filepath.Join(rel, name)
			if ps, ok := spec.Patches[relFile]; ok {
				for _, pr := range ps {
					if bytes.Count(src, []byte(pr[0])) != 1 {
						return nil, fmt.Errorf("patch for %s: pattern occurs %d times: %q", relFile, bytes.Count(src, []byte(pr[0])), pr[0])
					}
					src = bytes.Replace(src, []byte(pr[0]), []byte(pr[1]), 1)
				}
				patched[relFile] = true
			}
			out, nfs, nsync, err := rewriteFile(relFile, src, flags[0], flags[1])
			if err != nil {
				return nil, err
			}
			if out == nil && !patched[relFile] {
				continue
			}
			if out == nil {
				out = src
			}
			dst := filepath.Join(outDir, strings.ReplaceAll(relFile, "/", "__"))
			if err := os.WriteFile(dst, out, 0o644); err != nil {
				return nil, err
			}
			overlay[filepath.Join(dir, name)] = dst
			res.Files = append(res.Files, relFile)
			res.FSSites += nfs
			res.SyncSites += nsync
		}
	}
	// patches to files outside the rewritten packages
	for relFile, ps := range spec.Patches {
		if patched[relFile] {
			continue
		}
		src, err := os.ReadFile(filepath.Join(spec.Repo, relFile))
		if err != nil {
			return nil, err
		}
		for _, pr := range ps {
			if bytes.Count(src, []byte(pr[0])) != 1 {
				return nil, fmt.Errorf("patch for %s: pattern occurs %d times: %q", relFile, bytes.Count(src, []byte(pr[0])), pr[0])
			}
			src = bytes.Replace(src, []byte(pr[0]), []byte(pr[1]), 1)
		}
		dst := filepath.Join(outDir, strings.ReplaceAll(relFile, "/", "__"))
		if err := os.WriteFile(dst, src, 0o644); err != nil {
			return nil, err
		}
		overlay[filepath.Join(spec.Repo, relFile)] = dst
		res.Files = append(res.Files, relFile)
	}
	js, _ := json.MarshalIndent(map[string]any{"Replace": overlay}, "", " ")
	res.OverlayPath = filepath.Join(outDir, "overlay.json")
	if err := os.WriteFile(res.OverlayPath, js, 0o644); err != nil {
		return nil, err
	}
	return res, nil
}

func rewriteFile(rel string, src []byte, doFS, doSync bool) (out []byte, nfs, nsync int, err error) {
	fset := token.NewFileSet()
	f, err := parser.ParseFile(fset, rel, src, parser.ParseComments)
	if err != nil {
		return nil, 0, 0, fmt.Errorf("parse %s: %w", rel, err)
	}
	names := map[string]string{} // local import name -> canonical package
	for _, canon := range []string{"os", "io/ioutil", "path/filepath", "syscall", "golang.org/x/sys/unix", "sync"} {
		if n, _ := importName(f, canon); n != "" {
			names[n] = filepath.Base(canon)
		}
	}
	osLeft, syncLeft := false, false
	var ferr error
	ast.Inspect(f, func(n ast.Node) bool {
		sel, ok := n.(*ast.SelectorExpr)
		if !ok {
			return true
		}
		id, ok := sel.X.(*ast.Ident)
		if !ok || id.Obj != nil { // id.Obj != nil: a local object shadows the package name
			return true
		}
		canon, ok := names[id.Name]
		if !ok {
			return true
		}
		if doFS {
			if m := unmodelled[canon]; m != nil && m[sel.Sel.Name] {
				ferr = &UnmodelledError{File: rel, Call: canon + "." + sel.Sel.Name}
				return false
			}
		}
		switch canon {
		case "os":
			if doFS && fsFuncs[sel.Sel.Name] {
				id.Name = "simfs"
				nfs++
			} else {
				osLeft = true
			}
		case "sync":
			if doSync && (sel.Sel.Name == "Mutex" || sel.Sel.Name == "RWMutex") {
				id.Name = "simsync"
				nsync++
			} else {
				syncLeft = true
			}
		}
		return true
	})
	if ferr != nil {
		return nil, 0, 0, ferr
	}
	if nfs == 0 && nsync == 0 {
		return nil, 0, 0, nil
	}
	fix := func(pkgPath string, stillUsed bool, newPath string) {
		_, spec := importName(f, pkgPath)
		if spec == nil {
			return
		}
		if stillUsed {
			addImport(f, newPath)
			return
		}
		spec.Path.Value = strconv.Quote(newPath)
		spec.Name = nil
	}
	if nfs > 0 {
		fix("os", osLeft, "verif/simfs")
	}
	if nsync > 0 {
		fix("sync", syncLeft, "verif/simsync")
	}
	var buf bytes.Buffer
	if err := format.Node(&buf, fset, f); err != nil {
		return nil, 0, 0, fmt.Errorf("print %s: %w", rel, err)
	}
	return buf.Bytes(), nfs, nsync, nil
}

func addImport(f *ast.File, p string) {
	for _, d := range f.Decls {
		gd, ok := d.(*ast.GenDecl)
		if !ok || gd.Tok != token.IMPORT {
			continue
		}
		spec := &ast.ImportSpec{Path: &ast.BasicLit{Kind: token.STRING, Value: strconv.Quote(p)}}
		gd.Specs = append(gd.Specs, spec)
		if !gd.Lparen.IsValid() {
			gd.Lparen = gd.Pos()
			gd.Rparen = gd.End()
		}
		f.Imports = append(f.Imports, spec)
		return
	}
}
