// Package rewrite produces the build-time seam: copies of goProbe source files in which calls on
// package os that touch the file system go to verif/simfs, *os.File becomes *simfs.File and (in
// selected packages) sync.Mutex/RWMutex become verif/simsync types. The copies are handed to the
// go tool with -overlay; /repo is never modified.
package rewrite

import (
	"bytes"
	"encoding/json"
	"fmt"
	"go/ast"
	"go/format"
	"go/parser"
	"go/token"
	"os"
	"path/filepath"
	"strconv"
	"strings"
)

// fsFuncs are the os identifiers redirected to simfs.
var fsFuncs = map[string]bool{
	"Open": true, "OpenFile": true, "Create": true, "CreateTemp": true, "MkdirTemp": true,
	"Mkdir": true, "MkdirAll": true, "Rename": true, "Remove": true, "RemoveAll": true,
	"ReadDir": true, "ReadFile": true, "WriteFile": true, "Stat": true, "Lstat": true,
	"Chmod": true, "Truncate": true, "File": true,
}

// unmodelled are identifiers that touch the file system and have no simulated counterpart: the
// rewrite fails closed when it meets one.
var unmodelled = map[string]map[string]bool{
	"os": {"Link": true, "Symlink": true, "Readlink": true, "Chown": true, "Lchown": true, "Chtimes": true,
		"DirFS": true, "CopyFS": true, "NewFile": true, "Chdir": true, "SameFile": true, "Pipe": true, "OpenRoot": true, "OpenInRoot": true},
	"ioutil":   {"ReadFile": true, "WriteFile": true, "ReadDir": true, "TempFile": true, "TempDir": true},
	"filepath": {"EvalSymlinks": true},
	"syscall": {"Open": true, "Rename": true, "Unlink": true, "Mkdir": true, "Rmdir": true, "Fsync": true, "Flock": true,
		"Mmap": true, "Ftruncate": true, "Truncate": true, "Link": true, "Symlink": true, "Fdatasync": true, "Sync": true},
	"unix": {"Open": true, "Rename": true, "Unlink": true, "Mkdir": true, "Rmdir": true, "Fsync": true, "Flock": true,
		"Mmap": true, "Ftruncate": true, "Truncate": true, "Renameat2": true, "Fdatasync": true, "Sync": true},
}

// Spec selects what to rewrite.
type Spec struct {
	Repo     string   // repository root
	FSPkgs   []string // package dirs (relative) whose os calls are redirected
	SyncPkgs []string // package dirs (relative) whose sync.Mutex/RWMutex are redirected
	// Patches are textual mutations applied before rewriting (sensitivity mutants): file (relative)
	// -> list of [old,new] pairs; each old must occur exactly once.
	Patches map[string][][2]string
	// EncSeam adds the build-configuration seam of the compression back ends (see encSeam).
	EncSeam bool
}

// Result describes what was rewritten.
type Result struct {
	OverlayPath string
	Files       []string
	FSSites     int
	SyncSites   int
}

// UnmodelledError is returned when a file uses a file-system call with no simulated counterpart.
type UnmodelledError struct{ File, Call string }

func (e *UnmodelledError) Error() string {
	return fmt.Sprintf("unmodelled file-system call %s in %s", e.Call, e.File)
}

func importName(f *ast.File, pathWanted string) (string, *ast.ImportSpec) {
	for _, im := range f.Imports {
		p, _ := strconv.Unquote(im.Path.Value)
		if p == pathWanted {
			if im.Name != nil {
				return im.Name.Name, im
			}
			return filepath.Base(pathWanted), im
		}
	}
	return "", nil
}

// Run rewrites the selected packages into outDir and writes outDir/overlay.json.
func Run(spec Spec, outDir string) (*Result, error) {
	res := &Result{}
	overlay := map[string]string{}
	pkgs := map[string][2]bool{}
	for _, p := range spec.FSPkgs {
		v := pkgs[p]
		v[0] = true
		pkgs[p] = v
	}
	for _, p := range spec.SyncPkgs {
		v := pkgs[p]
		v[1] = true
		pkgs[p] = v
	}
	patched := map[string]bool{}
	for rel, flags := range pkgs {
		dir := filepath.Join(spec.Repo, rel)
		ents, err := os.ReadDir(dir)
		if err != nil {
			return nil, err
		}
		for _, e := range ents {
			name := e.Name()
			if e.IsDir() || !strings.HasSuffix(name, ".go") || strings.HasSuffix(name, "_test.go") {
				continue
			}
			src, err := os.ReadFile(filepath.Join(dir, name))
			if err != nil {
				return nil, err
			}
			relFile := filepath.Join(rel, name)
			if ps, ok := spec.Patches[relFile]; ok {
				for _, pr := range ps {
					if bytes.Count(src, []byte(pr[0])) != 1 {
						return nil, fmt.Errorf("patch for %s: pattern occurs %d times: %q", relFile, bytes.Count(src, []byte(pr[0])), pr[0])
					}
					src = bytes.Replace(src, []byte(pr[0]), []byte(pr[1]), 1)
				}
				patched[relFile] = true
			}
			out, nfs, nsync, err := rewriteFile(relFile, src, flags[0], flags[1])
			if err != nil {
				return nil, err
			}
			if out == nil && !patched[relFile] {
				continue
			}
			if out == nil {
				out = src
			}
			dst := filepath.Join(outDir, strings.ReplaceAll(relFile, "/", "__"))
			if err := os.WriteFile(dst, out, 0o644); err != nil {
				return nil, err
			}
			overlay[filepath.Join(dir, name)] = dst
			res.Files = append(res.Files, relFile)
			res.FSSites += nfs
			res.SyncSites += nsync
		}
	}
	// patches to files outside the rewritten packages
	for relFile, ps := range spec.Patches {
		if patched[relFile] {
			continue
		}
		src, err := os.ReadFile(filepath.Join(spec.Repo, relFile))
		if err != nil {
			return nil, err
		}
		for _, pr := range ps {
			if bytes.Count(src, []byte(pr[0])) != 1 {
				return nil, fmt.Errorf("patch for %s: pattern occurs %d times: %q", relFile, bytes.Count(src, []byte(pr[0])), pr[0])
			}
			src = bytes.Replace(src, []byte(pr[0]), []byte(pr[1]), 1)
		}
		dst := filepath.Join(outDir, strings.ReplaceAll(relFile, "/", "__"))
		if err := os.WriteFile(dst, src, 0o644); err != nil {
			return nil, err
		}
		overlay[filepath.Join(spec.Repo, relFile)] = dst
		res.Files = append(res.Files, relFile)
	}
	if spec.EncSeam {
		if err := encSeam(spec, outDir, overlay, res); err != nil {
			return nil, err
		}
	}
	js, _ := json.MarshalIndent(map[string]any{"Replace": overlay}, "", " ")
	res.OverlayPath = filepath.Join(outDir, "overlay.json")
	if err := os.WriteFile(res.OverlayPath, js, 0o644); err != nil {
		return nil, err
	}
	return res, nil
}

func rewriteFile(rel string, src []byte, doFS, doSync bool) (out []byte, nfs, nsync int, err error) {
	fset := token.NewFileSet()
	f, err := parser.ParseFile(fset, rel, src, parser.ParseComments)
	if err != nil {
		return nil, 0, 0, fmt.Errorf("parse %s: %w", rel, err)
	}
	names := map[string]string{} // local import name -> canonical package
	for _, canon := range []string{"os", "io/ioutil", "path/filepath", "syscall", "golang.org/x/sys/unix", "sync"} {
		if n, _ := importName(f, canon); n != "" {
			names[n] = filepath.Base(canon)
		}
	}
	osLeft, syncLeft, filepathLeft, globbed := false, false, false, false
	nloops := 0
	var ferr error
	ast.Inspect(f, func(n ast.Node) bool {
		sel, ok := n.(*ast.SelectorExpr)
		if !ok {
			return true
		}
		id, ok := sel.X.(*ast.Ident)
		if !ok || id.Obj != nil { // id.Obj != nil: a local object shadows the package name
			return true
		}
		canon, ok := names[id.Name]
		if !ok {
			return true
		}
		if doFS {
			if m := unmodelled[canon]; m != nil && m[sel.Sel.Name] {
				ferr = &UnmodelledError{File: rel, Call: canon + "." + sel.Sel.Name}
				return false
			}
		}
		switch canon {
		case "filepath":
			if doFS && (sel.Sel.Name == "Glob" || sel.Sel.Name == "Walk" || sel.Sel.Name == "WalkDir") {
				id.Name = "simfs"
				nfs++
				globbed = true
			} else {
				filepathLeft = true
			}
		case "os":
			if doFS && fsFuncs[sel.Sel.Name] {
				id.Name = "simfs"
				nfs++
			} else {
				osLeft = true
			}
		case "sync":
			if doSync && (sel.Sel.Name == "Mutex" || sel.Sel.Name == "RWMutex") {
				id.Name = "simsync"
				nsync++
			} else {
				syncLeft = true
			}
		}
		return true
	})
	if ferr != nil {
		return nil, 0, 0, ferr
	}
	if doSync {
		// a scheduling point at the top of every bare `for { ... }` loop (event loops)
		ast.Inspect(f, func(n ast.Node) bool {
			fs, ok := n.(*ast.ForStmt)
			if !ok || fs.Init != nil || fs.Cond != nil || fs.Post != nil {
				return true
			}
			pos := fset.Position(fs.Pos())
			call := &ast.ExprStmt{X: &ast.CallExpr{
				Fun:  &ast.SelectorExpr{X: ast.NewIdent("simsync"), Sel: ast.NewIdent("Loop")},
				Args: []ast.Expr{&ast.BasicLit{Kind: token.STRING, Value: strconv.Quote(fmt.Sprintf("loop %s:%d", filepath.Base(rel), pos.Line))}},
			}}
			fs.Body.List = append([]ast.Stmt{call}, fs.Body.List...)
			nloops++
			return true
		})
	}
	if nfs == 0 && nsync == 0 && nloops == 0 {
		return nil, 0, 0, nil
	}
	fix := func(pkgPath string, stillUsed bool, newPath string) {
		_, spec := importName(f, pkgPath)
		if spec == nil {
			return
		}
		if stillUsed {
			addImport(f, newPath)
			return
		}
		spec.Path.Value = strconv.Quote(newPath)
		spec.Name = nil
	}
	if nfs > 0 {
		if _, spec := importName(f, "os"); spec != nil {
			fix("os", osLeft, "verif/simfs")
		} else {
			addImport(f, "verif/simfs")
		}
		if globbed && !filepathLeft {
			// path/filepath was only used for Glob: the import would be unused now
			if _, spec := importName(f, "path/filepath"); spec != nil {
				spec.Name = ast.NewIdent("_")
			}
		}
	}
	if nsync > 0 {
		fix("sync", syncLeft, "verif/simsync")
	} else if nloops > 0 {
		addImport(f, "verif/simsync")
	}
	nsync += nloops
	var buf bytes.Buffer
	if err := format.Node(&buf, fset, f); err != nil {
		return nil, 0, 0, fmt.Errorf("print %s: %w", rel, err)
	}
	return buf.Bytes(), nfs, nsync, nil
}

func addImport(f *ast.File, p string) {
	for _, d := range f.Decls {
		gd, ok := d.(*ast.GenDecl)
		if !ok || gd.Tok != token.IMPORT {
			continue
		}
		spec := &ast.ImportSpec{Path: &ast.BasicLit{Kind: token.STRING, Value: strconv.Quote(p)}}
		gd.Specs = append(gd.Specs, spec)
		if !gd.Lparen.IsValid() {
			gd.Lparen = gd.Pos()
			gd.Rparen = gd.End()
		}
		f.Imports = append(f.Imports, spec)
		return
	}
}

// encSeam makes the choice between the cgo and the pure-Go compression back ends - in the shipped
// code a build-time choice (build tags cgo / goprobe_noliblz4 / goprobe_nolibzstd) - a run-time
// choice of the simulator, so that a "restart" can come back as a differently built binary over
// the same disk image. For each of lz4 and zstd the files <x>.go and <x>_native.go of the current
// tree are copied into the same package with the build constraint removed and the identifiers
// Encoder / New / Option / WithCompressionLevel renamed to Native*; encoder.New is redirected to
// a factory that consults two switches (off = the cgo back ends, as shipped). All code that
// differs between the four build configurations is in these files, and all of it is compiled in.
func encSeam(spec Spec, outDir string, overlay map[string]string, res *Result) error {
	base := map[string]string{"Encoder": "NativeEncoder", "New": "NewNative", "Option": "NativeOption", "WithCompressionLevel": "WithNativeCompressionLevel"}
	for _, x := range []string{"lz4", "zstd"} {
		dir := filepath.Join("pkg/goDB/encoder", x)
		// every package-level name the pure-Go file declares gets a private twin (the cgo file may
		// declare a helper of the same name); the four API names keep their fixed twins
		rename := map[string]string{}
		if src, err := os.ReadFile(filepath.Join(spec.Repo, dir, x+"_native.go")); err == nil {
			for _, n := range topLevelNames(src) {
				rename[n] = "verifNative_" + n
			}
		}
		for k, v := range base {
			rename[k] = v
		}
		for i, name := range []string{x + ".go", x + "_native.go"} {
			relFile := filepath.Join(dir, name)
			src, err := os.ReadFile(filepath.Join(spec.Repo, relFile))
			if err != nil {
				return err
			}
			for _, pr := range spec.Patches[relFile] {
				if bytes.Count(src, []byte(pr[0])) != 1 {
					return fmt.Errorf("patch for %s: pattern occurs %d times: %q", relFile, bytes.Count(src, []byte(pr[0])), pr[0])
				}
				src = bytes.Replace(src, []byte(pr[0]), []byte(pr[1]), 1)
			}
			out, err := nativeCopy(relFile, src, rename, base, i == 0)
			if err != nil {
				return err
			}
			gen := filepath.Join(dir, fmt.Sprintf("zz_verif_native_%d.go", i))
			dst := filepath.Join(outDir, strings.ReplaceAll(gen, "/", "__"))
			if err := os.WriteFile(dst, out, 0o644); err != nil {
				return err
			}
			overlay[filepath.Join(spec.Repo, gen)] = dst
			res.Files = append(res.Files, gen+" (generated from "+name+")")
		}
	}
	// the factory
	relFile := "pkg/goDB/encoder/encoder.go"
	full := filepath.Join(spec.Repo, relFile)
	src, err := os.ReadFile(full)
	if err != nil {
		return err
	}
	if prev, ok := overlay[full]; ok { // already patched by a mutant
		if src, err = os.ReadFile(prev); err != nil {
			return err
		}
	}
	n := 0
	for _, x := range []string{"lz4", "zstd"} {
		call := x + ".New()"
		n += bytes.Count(src, []byte(call))
		src = bytes.ReplaceAll(src, []byte(call), []byte("verifNew_"+x+"("+x+".New)"))
	}
	if n != 2 {
		return fmt.Errorf("encoder seam: expected one lz4.New() and one zstd.New() in %s, found %d construction sites", relFile, n)
	}
	dst := filepath.Join(outDir, strings.ReplaceAll(relFile, "/", "__"))
	if err := os.WriteFile(dst, src, 0o644); err != nil {
		return err
	}
	overlay[full] = dst
	res.Files = append(res.Files, relFile)
	factory := `package encoder

import (
	"github.com/els0r/goProbe/v4/pkg/goDB/encoder/lz4"
	"github.com/els0r/goProbe/v4/pkg/goDB/encoder/zstd"
)

// VerifLZ4Native / VerifZSTDNative select the pure-Go back end for newly created encoders
// (simulated build configuration; both off = cgo build, as shipped).
var VerifLZ4Native, VerifZSTDNative bool

func verifNew_lz4(shipped func(...lz4.Option) *lz4.Encoder) Encoder {
	if VerifLZ4Native {
		return lz4.NewNative()
	}
	return shipped()
}

func verifNew_zstd(shipped func(...zstd.Option) *zstd.Encoder) Encoder {
	if VerifZSTDNative {
		return zstd.NewNative()
	}
	return shipped()
}
`
	gen := "pkg/goDB/encoder/zz_verif_build.go"
	dst = filepath.Join(outDir, strings.ReplaceAll(gen, "/", "__"))
	if err := os.WriteFile(dst, []byte(factory), 0o644); err != nil {
		return err
	}
	overlay[filepath.Join(spec.Repo, gen)] = dst
	res.Files = append(res.Files, gen+" (generated)")
	return nil
}

// nativeCopy renames the package-level identifiers of a back-end file and removes its build
// constraint; with dropValues the const and var declarations are removed (they are shared with
// the original file) together with imports that become unused.
func nativeCopy(rel string, src []byte, rename, base map[string]string, dropValues bool) ([]byte, error) {
	var lines []string
	for _, l := range strings.Split(string(src), "\n") {
		if strings.HasPrefix(l, "//go:build") || strings.HasPrefix(l, "// +build") {
			continue
		}
		lines = append(lines, l)
	}
	fset := token.NewFileSet()
	f, err := parser.ParseFile(fset, rel, strings.Join(lines, "\n"), 0)
	if err != nil {
		return nil, fmt.Errorf("parse %s: %w", rel, err)
	}
	if dropValues {
		// the file shared by both builds: only the declarations of the API names (the Encoder and
		// Option types, their methods, New, WithCompressionLevel) are duplicated for the pure-Go
		// twin; constants, variables and helper functions stay shared with the original file
		recvName := func(fd *ast.FuncDecl) string {
			if fd.Recv == nil || len(fd.Recv.List) == 0 {
				return ""
			}
			t := fd.Recv.List[0].Type
			if st, ok := t.(*ast.StarExpr); ok {
				t = st.X
			}
			if id, ok := t.(*ast.Ident); ok {
				return id.Name
			}
			return ""
		}
		var decls []ast.Decl
		for _, d := range f.Decls {
			switch x := d.(type) {
			case *ast.GenDecl:
				if x.Tok == token.IMPORT {
					decls = append(decls, d)
				} else if x.Tok == token.TYPE {
					var specs []ast.Spec
					for _, sp := range x.Specs {
						if _, ok := base[sp.(*ast.TypeSpec).Name.Name]; ok {
							specs = append(specs, sp)
						}
					}
					if len(specs) > 0 {
						x.Specs = specs
						decls = append(decls, d)
					}
				}
			case *ast.FuncDecl:
				if rn := recvName(x); rn != "" {
					if _, ok := base[rn]; ok {
						decls = append(decls, d)
					}
				} else if _, ok := base[x.Name.Name]; ok {
					decls = append(decls, d)
				}
			}
		}
		f.Decls = decls
	}
	sels := map[*ast.Ident]bool{}
	used := map[string]bool{}
	ast.Inspect(f, func(n ast.Node) bool {
		if se, ok := n.(*ast.SelectorExpr); ok {
			sels[se.Sel] = true
			if id, ok := se.X.(*ast.Ident); ok {
				used[id.Name] = true
			}
		}
		return true
	})
	for _, d := range f.Decls {
		if fd, ok := d.(*ast.FuncDecl); ok && fd.Recv != nil {
			sels[fd.Name] = true // method names are not package-level names
		}
	}
	ast.Inspect(f, func(n ast.Node) bool {
		if kv, ok := n.(*ast.KeyValueExpr); ok {
			if id, ok := kv.Key.(*ast.Ident); ok {
				sels[id] = true // field names in composite literals
			}
		}
		if fl, ok := n.(*ast.Field); ok {
			for _, id := range fl.Names {
				sels[id] = true // struct field and parameter names
			}
		}
		return true
	})
	ast.Inspect(f, func(n ast.Node) bool {
		if id, ok := n.(*ast.Ident); ok && !sels[id] {
			if to, ok := rename[id.Name]; ok {
				id.Name = to
			}
		}
		return true
	})
	// drop imports that are no longer referenced
	for _, d := range f.Decls {
		gd, ok := d.(*ast.GenDecl)
		if !ok || gd.Tok != token.IMPORT {
			continue
		}
		var specs []ast.Spec
		for _, s := range gd.Specs {
			im := s.(*ast.ImportSpec)
			p, _ := strconv.Unquote(im.Path.Value)
			name := filepath.Base(p)
			if name == "v4" {
				name = filepath.Base(filepath.Dir(p))
			}
			if im.Name != nil {
				name = im.Name.Name
			}
			if used[name] {
				specs = append(specs, s)
			}
		}
		gd.Specs = specs
	}
	var buf bytes.Buffer
	if err := format.Node(&buf, fset, f); err != nil {
		return nil, fmt.Errorf("print %s: %w", rel, err)
	}
	return buf.Bytes(), nil
}

// topLevelNames lists the package-level names (types, functions, variables, constants; no
// methods) a source file declares.
func topLevelNames(src []byte) []string {
	fset := token.NewFileSet()
	f, err := parser.ParseFile(fset, "x.go", src, 0)
	if err != nil {
		return nil
	}
	var out []string
	for _, d := range f.Decls {
		switch x := d.(type) {
		case *ast.FuncDecl:
			if x.Recv == nil {
				out = append(out, x.Name.Name)
			}
		case *ast.GenDecl:
			for _, sp := range x.Specs {
				switch y := sp.(type) {
				case *ast.TypeSpec:
					out = append(out, y.Name.Name)
				case *ast.ValueSpec:
					for _, n := range y.Names {
						out = append(out, n.Name)
					}
				}
			}
		}
	}
	return out
}
