// Package sim holds the simulator core: the choice tape every decision is drawn from,
// the event log, statistics, and the tape minimiser.
package sim

import (
	"fmt"
	"hash/fnv"
	"sync"
)

// splitmix64 step.
func splitmix(x *uint64) uint64 {
	*x += 0x9e3779b97f4a7c15
	z := *x
	z = (z ^ (z >> 30)) * 0xbf58476d1ce4e5b9
	z = (z ^ (z >> 27)) * 0x94d049bb133111eb
	return z ^ (z >> 31)
}

// DeriveSeed derives the seed of run i of property prop from the batch seed.
func DeriveSeed(seed int64, prop string, i int) uint64 {
	h := fnv.New64a()
	fmt.Fprintf(h, "%d/%s/%d", seed, prop, i)
	x := h.Sum64()
	return splitmix(&x)
}

// Tape is the single source of every decision of a simulated run.
//
// In generate mode values come from a splitmix64 stream; in replay mode they come from a recorded
// list (clamped to the requested bound; zero when the list is exhausted). Every value handed out
// is recorded so that a failing run can be re-executed and minimised from its tape.
type Tape struct {
	// mu orders draws made by goroutines of the system under test and by the scheduler. Which of
	// them draws next is decided by the scheduler (only one runs at a time); the lock adds the
	// memory ordering the Go memory model asks for when a goroutine was woken by a fake-clock timer.
	mu      sync.Mutex
	state   uint64
	replay  []uint64
	useRepl bool
	pos     int
	Rec     []uint64 // values handed out (already reduced mod n)
}

// NewTape returns a generating tape.
func NewTape(seed uint64) *Tape { return &Tape{state: seed} }

// ReplayTape returns a tape that replays vals.
func ReplayTape(vals []uint64) *Tape {
	return &Tape{replay: append([]uint64(nil), vals...), useRepl: true}
}

// Draw returns a value in [0,n). n<=1 returns 0 without consuming the tape.
func (t *Tape) Draw(n int) int {
	if n <= 1 {
		return 0
	}
	t.mu.Lock()
	defer t.mu.Unlock()
	var v uint64
	if t.useRepl {
		if t.pos < len(t.replay) {
			v = t.replay[t.pos]
			if v >= uint64(n) {
				v = uint64(n) - 1
			}
		}
		t.pos++
	} else {
		v = splitmix(&t.state) % uint64(n)
	}
	if len(t.Rec) > 1<<22 {
		panic("sim.Tape: more than 4M draws in one run (unbounded draw loop in a generator?)")
	}
	t.Rec = append(t.Rec, v)
	return int(v)
}

// Bool draws a boolean that is true with probability 1/oneIn. Zero on the tape means false, so
// shrinking switches features off.
func (t *Tape) Chance(num, den int) bool {
	// value v in [0,den): true iff v >= den-num  => 0 maps to false
	return t.Draw(den) >= den-num
}

// Bool is Chance(1,2).
func (t *Tape) Bool() bool { return t.Draw(2) == 1 }

// Range draws from [lo,hi].
func (t *Tape) Range(lo, hi int) int {
	if hi <= lo {
		return lo
	}
	return lo + t.Draw(hi-lo+1)
}

// Pick draws an index weighted towards... plain uniform; index 0 is "simplest".
func Pick[T any](t *Tape, xs []T) T { return xs[t.Draw(len(xs))] }

// Uint64 draws a full 64-bit value (two draws of 32 bit so that zeroing shrinks).
func (t *Tape) Uint64() uint64 {
	hi := uint64(t.Draw(1 << 31))
	lo := uint64(t.Draw(1 << 31))
	return hi<<33 ^ lo<<2 ^ uint64(t.Draw(4))
}

// Bytes fills a deterministic byte slice of length n. kind 0: zeros, 1: repetitive text,
// 2: incompressible pseudo-random. Only the kind and a 31-bit sub-seed consume the tape, so large
// payloads keep tapes short.
func (t *Tape) Bytes(n int, kind int) []byte {
	b := make([]byte, n)
	if n == 0 {
		return b
	}
	sub := uint64(t.Draw(1<<31)) + 1
	switch kind {
	case 0:
		for i := range b {
			b[i] = byte(sub)
		}
	case 1:
		pat := []byte(fmt.Sprintf("flow-%d-", sub%97))
		for i := range b {
			b[i] = pat[i%len(pat)]
		}
	default:
		x := sub
		for i := 0; i < n; i += 8 {
			v := splitmix(&x)
			for j := 0; j < 8 && i+j < n; j++ {
				b[i+j] = byte(v >> (8 * j))
			}
		}
	}
	return b
}

// Pos returns the number of draws so far.
func (t *Tape) Pos() int {
	t.mu.Lock()
	defer t.mu.Unlock()
	return len(t.Rec)
}
