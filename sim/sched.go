package sim

import (
	"fmt"
	"runtime"
	"sort"
	"strconv"
	"sync"
	"testing/synctest"
	"time"
)

// Sched is the seeded scheduler: goroutines of the system under test park at every seam
// (simulated I/O call, lock acquisition, packet delivery, client step) and the scheduler, running
// on the bubble's root goroutine, releases exactly one at a time after the bubble is quiescent
// (testing/synctest.Wait). Which one is drawn from the choice tape.
type Sched struct {
	r  *R
	mu sync.Mutex

	parked []*parkedG
	seq    int

	// strategy
	strategy  string
	burst     int
	lastActor string
	prio      map[string]int
	changeAt  map[int]bool

	Steps     int
	MaxParked int
	Preempts  int
	stopped   bool
	// ClockChance > 0: with probability 1/ClockChance a scheduling step advances the fake clock by a
	// drawn amount (up to ClockMax) instead of releasing a goroutine, so that time-outs can expire
	// while other goroutines are still working.
	ClockChance int
	ClockMax    time.Duration
	SimTime     time.Duration
	// OnQuiescent is called whenever the bubble is quiescent (every goroutine parked or durably
	// blocked): the only instants at which harness bookkeeping done by several goroutines is stable.
	OnQuiescent func()
	// OnStep is called after every scheduling step (history recording).
	OnStep func()
	// Idle is called when nothing is parked and the run is not done; it must make progress
	// possible (typically by advancing the clock) or return false to report a stall.
	Idle func() bool
}

type parkedG struct {
	actor, what string
	ch          chan struct{}
	seq         int
	gid         int64
}

// NewSched draws a strategy for the run.
func NewSched(r *R) *Sched {
	s := &Sched{r: r, prio: map[string]int{}, changeAt: map[int]bool{}}
	switch r.T.Draw(4) {
	case 0:
		s.strategy = "uniform"
	case 1:
		s.strategy = "burst"
		s.burst = []int{2, 4, 16, 64}[r.T.Draw(4)]
	case 2:
		s.strategy = "priority"
		for i, n := 0, 1+r.T.Draw(3); i < n; i++ {
			s.changeAt[r.T.Draw(2000)] = true
		}
	default:
		s.strategy = "burst"
		s.burst = 1000 // run-to-completion with rare preemption
	}
	return s
}

// Strategy describes the drawn strategy.
func (s *Sched) Strategy() string {
	if s.strategy == "burst" {
		return fmt.Sprintf("burst(%d)", s.burst)
	}
	return s.strategy
}

// GoID returns the current goroutine id.
func GoID() int64 {
	var buf [64]byte
	n := runtime.Stack(buf[:], false)
	// "goroutine 123 ["
	b := buf[10:n]
	i := 0
	for i < len(b) && b[i] >= '0' && b[i] <= '9' {
		i++
	}
	id, _ := strconv.ParseInt(string(b[:i]), 10, 64)
	return id
}

// Yield parks the calling goroutine until the scheduler releases it. After Stop it returns
// immediately (teardown).
func (s *Sched) Yield(actor, what string) {
	s.mu.Lock()
	if s.stopped {
		s.mu.Unlock()
		return
	}
	s.seq++
	p := &parkedG{actor: actor, what: what, ch: make(chan struct{}), seq: s.seq, gid: GoID()}
	s.parked = append(s.parked, p)
	s.mu.Unlock()
	<-p.ch
}

// Stop releases everything that is parked and turns Yield into a no-op.
func (s *Sched) Stop() {
	s.mu.Lock()
	s.stopped = true
	ps := s.parked
	s.parked = nil
	s.mu.Unlock()
	for _, p := range ps {
		close(p.ch)
	}
}

// Run drives the system until done() reports true. It returns an error text when the system
// stalls (nothing parked, nothing runnable, Idle cannot help) or the step budget is exhausted.
func (s *Sched) Run(done func() bool, maxSteps int) string {
	for {
		synctest.Wait()
		if s.OnQuiescent != nil {
			s.OnQuiescent()
		}
		if done() {
			return ""
		}
		s.mu.Lock()
		n := len(s.parked)
		s.mu.Unlock()
		if n == 0 {
			if s.Idle == nil || !s.Idle() {
				return "stall: no goroutine is parked at a seam and the run is not finished"
			}
			continue
		}
		if s.Steps >= maxSteps {
			return fmt.Sprintf("step budget of %d scheduling steps exhausted", maxSteps)
		}
		if s.ClockChance > 0 && s.r.T.Draw(s.ClockChance) == 0 {
			d := time.Duration(1+s.r.T.Draw(int(s.ClockMax/time.Millisecond)))*time.Millisecond + 3*time.Nanosecond // never lands exactly on a timer of the system
			s.r.Decision("clock", d.String())
			s.SimTime += d
			s.mu.Lock()
			s.Steps++
			s.mu.Unlock()
			time.Sleep(d)
		} else {
			s.step()
		}
		if s.OnStep != nil {
			s.OnStep()
		}
	}
}

// StepCount returns the number of scheduling steps so far; goroutines of the system under test
// use it to stamp the events of a recorded history (invoke / return of a call).
func (s *Sched) StepCount() int {
	s.mu.Lock()
	defer s.mu.Unlock()
	return s.Steps
}

// StepOnce performs one scheduling step if something is parked (after quiescence).
func (s *Sched) StepOnce() bool {
	synctest.Wait()
	s.mu.Lock()
	n := len(s.parked)
	s.mu.Unlock()
	if n == 0 {
		return false
	}
	s.step()
	return true
}

// Parked returns the number of parked goroutines (after quiescence).
func (s *Sched) Parked() int {
	synctest.Wait()
	s.mu.Lock()
	defer s.mu.Unlock()
	return len(s.parked)
}

func (s *Sched) step() {
	s.mu.Lock()
	// canonical order of the parked set: independent of arrival order
	sort.SliceStable(s.parked, func(i, j int) bool {
		a, b := s.parked[i], s.parked[j]
		if a.actor != b.actor {
			return a.actor < b.actor
		}
		if a.what != b.what {
			return a.what < b.what
		}
		return a.seq < b.seq
	})
	if len(s.parked) > s.MaxParked {
		s.MaxParked = len(s.parked)
	}
	idx := 0
	switch s.strategy {
	case "uniform":
		idx = s.r.T.Draw(len(s.parked))
	case "burst":
		idx = -1
		for i, p := range s.parked {
			if p.actor == s.lastActor {
				idx = i
				break
			}
		}
		if idx < 0 || (len(s.parked) > 1 && s.r.T.Draw(s.burst) == 0) {
			if idx >= 0 {
				s.Preempts++
			}
			idx = s.r.T.Draw(len(s.parked))
		}
	case "priority":
		if s.changeAt[s.Steps] && s.lastActor != "" {
			s.prio[s.lastActor] = -s.Steps // demote
			s.Preempts++
		}
		best := -1 << 62
		for i, p := range s.parked {
			pr, ok := s.prio[p.actor]
			if !ok {
				pr = 1 + s.r.T.Draw(1000)
				s.prio[p.actor] = pr
			}
			if pr > best {
				best, idx = pr, i
			}
		}
	}
	p := s.parked[idx]
	s.parked = append(s.parked[:idx], s.parked[idx+1:]...)
	s.lastActor = p.actor
	s.Steps++
	s.mu.Unlock()
	s.r.Decision(p.actor, p.what)
	close(p.ch)
}

// AdvanceClock sleeps on the fake clock (timers that are due fire and their goroutines run up to
// their next seam).
func AdvanceClock(d time.Duration) { time.Sleep(d) }
