package sim

import "time"

// Minimise shrinks a failing tape by delta debugging. still(vals) must re-execute the run from
// vals and report whether it ends in the same violation class. Generators are written so that
// smaller tape values mean simpler choices (no fault, fewer blocks, first actor).
func Minimise(vals []uint64, still func([]uint64) bool, maxTries int, budget time.Duration) (out []uint64, tries int) {
	deadline := time.Now().Add(budget)
	cur := append([]uint64(nil), vals...)
	try := func(c []uint64) bool {
		if tries >= maxTries || time.Now().After(deadline) {
			return false
		}
		tries++
		return still(c)
	}
	// drop trailing zeros (equivalent tape)
	trim := func(c []uint64) []uint64 {
		for len(c) > 0 && c[len(c)-1] == 0 {
			c = c[:len(c)-1]
		}
		return c
	}
	cur = trim(cur)
	for progress := true; progress && tries < maxTries && time.Now().Before(deadline); {
		progress = false
		// 1. shortest failing prefix (binary search is unsound in general; use halving probes)
		for n := len(cur) / 2; n >= 1; n /= 2 {
			for len(cur) > n {
				c := trim(append([]uint64(nil), cur[:len(cur)-n]...))
				if try(c) {
					cur = c
					progress = true
				} else {
					break
				}
			}
		}
		// 2. delete chunks
		for sz := len(cur) / 2; sz >= 1; sz /= 2 {
			for i := 0; i+sz <= len(cur); {
				c := append(append([]uint64(nil), cur[:i]...), cur[i+sz:]...)
				c = trim(c)
				if try(c) {
					cur = c
					progress = true
				} else {
					i += sz
				}
			}
		}
		// 3. zero / lower single values
		for i := 0; i < len(cur); i++ {
			if cur[i] == 0 {
				continue
			}
			for _, nv := range []uint64{0, cur[i] / 2, cur[i] - 1} {
				if nv >= cur[i] {
					continue
				}
				c := append([]uint64(nil), cur...)
				c[i] = nv
				if try(trim(c)) {
					cur = trim(c)
					progress = true
					if i >= len(cur) {
						break
					}
					if cur[i] == 0 {
						break
					}
				}
			}
		}
	}
	return cur, tries
}
