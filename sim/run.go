package sim

import (
	"fmt"
	"hash/fnv"
	"os"
	"sort"
	"strconv"
	"strings"
	"sync"
)

// Violation is a property violation found by an oracle.
type Violation struct {
	Prop   string `json:"property"`
	Clause string `json:"clause"` // oracle clause, e.g. "readback-differs"
	// Signature identifies the minimal failing situation in canonical form; it is what
	// known_findings.json matches on. Must not contain run-specific noise (seeds, temp names).
	Signature string `json:"signature"`
	Detail    string `json:"detail"`
}

func (v *Violation) Error() string {
	return fmt.Sprintf("%s/%s [%s]: %s", v.Prop, v.Clause, v.Signature, v.Detail)
}

// Class is what minimisation preserves.
func (v *Violation) Class() string { return v.Prop + "/" + v.Clause + "/" + v.Signature }

// R is the context of one simulated run.
type R struct {
	mu   sync.Mutex // Event, Decision, Fault, Probe may be called from goroutines of the system under test
	T    *Tape
	Prop string // property id of the run

	trace      []string
	traceOn    bool
	hash       uint64 // running hash of the canonical event log (decisions + observations)
	nEvents    int
	nDecisions int
	Faults     map[string]int // fault kind -> times fired in this run
	Probes     map[string]int // "rare condition reached" probes
	Steps      int            // scheduler steps / simulated operations
	SimTimeNs  int64          // simulated time covered
	Nontriv    bool           // run is non-trivial by the property's rule
	Shape      string         // optional: shape key used for distinctness in addition to the hash
	Known      []*Violation   // known findings hit by this run (run continued)
	IsKnown    func(v *Violation) bool
	// RuntimeRandom is set by a run whose course depends on randomness no seed controls (goProbe
	// iterating a Go map of several captures): its replay is retried and it takes no part in the
	// determinism self-test.
	RuntimeRandom bool
}

// NewR creates a run context.
func NewR(t *Tape, trace bool) *R {
	return &R{T: t, traceOn: trace, Faults: map[string]int{}, Probes: map[string]int{}, hash: 1469598103934665603}
}

// Event appends a canonical event to the log. It never draws from the tape or reads a clock.
func (r *R) Event(format string, a ...any) {
	s := fmt.Sprintf(format, a...)
	r.mu.Lock()
	defer r.mu.Unlock()
	h := fnv.New64a()
	var b [8]byte
	for i := 0; i < 8; i++ {
		b[i] = byte(r.hash >> (8 * i))
	}
	h.Write(b[:])
	h.Write([]byte(s))
	r.hash = h.Sum64()
	r.nEvents++
	if r.traceOn {
		if len(s) > 400 {
			s = s[:400] + "…"
		}
		r.trace = append(r.trace, s)
	}
}

// Note adds a line to the human-readable trace only (not hashed).
func (r *R) Note(format string, a ...any) {
	r.mu.Lock()
	defer r.mu.Unlock()
	if r.traceOn {
		r.trace = append(r.trace, "# "+fmt.Sprintf(format, a...))
	}
}

// Hash is the hash of the canonical event log so far.
func (r *R) Hash() uint64 { return r.hash }

// Trace returns the recorded trace.
func (r *R) Trace() []string { return r.trace }

// Fault counts a fault that actually fired.
func (r *R) Fault(kind string) {
	r.mu.Lock()
	r.Faults[kind]++
	r.mu.Unlock()
}

// Probe counts a reached condition.
func (r *R) Probe(name string) {
	r.mu.Lock()
	r.Probes[name]++
	r.mu.Unlock()
}

// Report decides what to do with a violation found mid-run: if it is listed as a known finding it
// is recorded and nil is returned (the run may continue); otherwise the violation is returned and
// the caller must stop the run.
func (r *R) Report(v *Violation) *Violation {
	if v == nil {
		return nil
	}
	if v.Prop == "" {
		v.Prop = r.Prop
	}
	if r.IsKnown != nil && r.IsKnown(v) {
		for _, k := range r.Known {
			if k.Class() == v.Class() {
				return nil
			}
		}
		r.Known = append(r.Known, v)
		return nil
	}
	return v
}

// SortedKeys is a helper to iterate maps canonically.
func SortedKeys[V any](m map[string]V) []string {
	ks := make([]string, 0, len(m))
	for k := range m {
		ks = append(ks, k)
	}
	sort.Strings(ks)
	return ks
}

// Hex renders bytes compactly for traces.
func Hex(b []byte) string {
	const max = 24
	if len(b) <= max {
		return fmt.Sprintf("%x", b)
	}
	return fmt.Sprintf("%x…(%d bytes)", b[:max], len(b))
}

// Indent helper for multi-line details.
func Indent(s string) string { return "  " + strings.ReplaceAll(s, "\n", "\n  ") }

// traceMax bounds the scheduling decisions kept in the human-readable trace (all are hashed);
// VERIF_TRACE_MAX raises it for determinism diagnostics.
var traceMax = func() int {
	if n, err := strconv.Atoi(os.Getenv("VERIF_TRACE_MAX")); err == nil && n > 0 {
		return n
	}
	return 400
}()

// Decision records a scheduling decision in the canonical log (hashed; traced up to a bound).
func (r *R) Decision(actor, what string) {
	r.mu.Lock()
	defer r.mu.Unlock()
	h := r.hash
	for i := 0; i < len(actor); i++ {
		h = (h ^ uint64(actor[i])) * 1099511628211
	}
	h = (h ^ 0x1f) * 1099511628211
	for i := 0; i < len(what); i++ {
		h = (h ^ uint64(what[i])) * 1099511628211
	}
	r.hash = h
	r.Steps++
	if r.traceOn && r.nDecisions < traceMax {
		r.trace = append(r.trace, "  > "+actor+": "+what)
	}
	r.nDecisions++
}
