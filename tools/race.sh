#!/bin/bash
# Diagnostic: runs one or more checks with the harness built under the Go race detector. A race
# report (in harness or goProbe code) ends the check with exit 2 and the report in its output.
#   tools/race.sh <budget-s> <prop> [<prop> ...]
set -u
budget=$1; shift
export GOFLAGS=-mod=mod GOPROXY=off GOSUMDB=off GOTOOLCHAIN=local
cd "$(dirname "$0")/.." || exit 2
[ -x ./check ] || go1.26.8 build -o check ./cmd/check || exit 2
for p in "$@"; do
  ./check "$p" --race --no-evidence --budget "$budget" --workers 8 > "race-$p.log" 2>&1
  rc=$?
  n=$(grep -c "WARNING: DATA RACE" "race-$p.log")
  printf "%s\trace-build\texit=%s\tdata-race-reports=%s\t%s\n" "$p" "$rc" "$n" "$(grep -E "^check $p tier" "race-$p.log" | tail -1)" | tee -a "${RACE_OUT:-race.tsv}"
done
