#!/bin/bash
# confirm a sub-agent delivery and, when it holds up, run the property's quick check against it
#   tools/pipeline.sh <name> <agent worktree>
name=$1; wt=$2
unset GOFLAGS GOSUMDB GOTOOLCHAIN
export GOPROXY=off
/verif/tools/confirm_agent.sh "$name" "$wt" > "/tmp/confirm-$name.log" 2>&1
if grep -q "VERDICT $name: confirmed" "/verif/seeded/$name/confirm.log" 2>/dev/null; then
  /verif/tools/matrix.sh "$name" > "/tmp/matrix-$name.log" 2>&1
fi
