#!/bin/bash
# Runs checks of the given tier over several seeds on the unchanged tree and summarises the
# outcome (one line per check and seed) in sweep-<tier>.tsv of the working directory.
#   tools/sweep.sh <tier> <budget-s> <seed> [<seed> ...]        (SWEEP_PROPS="C01 C04" restricts)
set -u
tier=$1; budget=$2; shift 2
export GOFLAGS=-mod=mod GOPROXY=off GOSUMDB=off GOTOOLCHAIN=local
cd "$(dirname "$0")/.." || exit 2
[ -x ./check ] || go1.26.8 build -o check ./cmd/check || exit 2
props=${SWEEP_PROPS:-$(python3 -c "import json;print(' '.join(c['property_id'] for c in json.load(open('MANIFEST.json'))['checks']))")}
out=${SWEEP_OUT:-sweep-$tier.tsv}
for seed in "$@"; do
  for p in $props; do
    t0=$(date +%s)
    ./check "$p" --tier "$tier" --seed "$seed" --budget "$budget" --no-evidence > "sweep-$p-$seed.log" 2>&1
    rc=$?
    t1=$(date +%s)
    sum=$(grep -E "^check $p tier" "sweep-$p-$seed.log" | tail -1)
    nv=$(grep -c '^VIOLATION' "sweep-$p-$seed.log")
    nk=$(grep -c '^KNOWN-FINDING' "sweep-$p-$seed.log")
    printf "%s\t%s\t%s\t%s\t%ss\tviol=%s\tknown=%s\t%s\n" "$p" "$tier" "$seed" "$rc" "$((t1-t0))" "$nv" "$nk" "$sum" | tee -a "$out"
    [ "$rc" = "0" ] && rm -f "sweep-$p-$seed.log"
  done
done
