#!/bin/bash
# Repeats the confirmation of a stored seeded change (seeded/<name>/ holds patch, demo and demo_path.txt).
name=$1
d=/verif/seeded/$name
src=/tmp/confirm-src/$name
rm -rf "$src"; mkdir -p "$src"
cp "$d"/patch.diff "$d"/*_test.go "$d"/demo_path.txt "$src"/ 2>/dev/null
cp "$d"/agent_meta.json "$src"/meta.json 2>/dev/null
mapfile -t L < "$src/demo_path.txt"
if [[ "${L[3]:-}" =~ ^([A-Z_]+=[^[:space:]]+) ]]; then export DEMO_ENV="${BASH_REMATCH[1]}"; fi
unset GOFLAGS GOSUMDB GOTOOLCHAIN
export GOPROXY=off
/verif/tools/confirm_seeded.sh "$name" "$src" "${L[0]}" "${L[1]}" "${L[2]}"
rc=$?
rm -rf "$src"
exit $rc
