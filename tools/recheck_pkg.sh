#!/bin/bash
# Re-checks one package of the repository's suite with a seeded change applied (for changes whose
# confirmation was rejected only because a load-sensitive package failed): up to three tries.
#   tools/recheck_pkg.sh <seeded name> <package>
name=$1; pkg=$2
d=/verif/seeded/$name; wt=/tmp/confirm/re-$name
git -C /repo worktree remove --force "$wt" >/dev/null 2>&1; rm -rf "$wt"
git -C /repo worktree add -q --detach "$wt" HEAD || exit 2
trap 'git -C /repo worktree remove --force "$wt" >/dev/null 2>&1; rm -rf "$wt"' EXIT
cd "$wt" && git apply "$d/patch.diff" || exit 2
for try in 1 2 3; do
  echo "== recheck $pkg try $try" >> "$d/suite.log"
  if go test -vet=off -count=1 -timeout 60m "$pkg" >> "$d/suite.log" 2>&1; then
    sed -i "s#^VERDICT $name: rejected.*#VERDICT $name: confirmed (demo and build as above; $pkg failed under machine load in the full run and passed alone on try $try of tools/recheck_pkg.sh)#" "$d/confirm.log"
    tail -1 "$d/confirm.log"; exit 0
  fi
done
echo "still failing"; exit 1
