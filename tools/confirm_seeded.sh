#!/bin/bash
# Confirms a seeded defect delivered by a sub-agent in a scratch worktree of /repo and, when it
# holds up, stores it as /verif/seeded/<name>/. Usage:
#   confirm_seeded.sh <name> <src_dir> <demo_dest_dir_rel> <pkg> <run_regex> [skip_suite]
set -u
name=$1; src=$2; dest=$3; pkg=$4; re=$5; skip=${6:-}
wt=/tmp/confirm/$name
out=/verif/seeded/$name
mkdir -p /tmp/confirm "$out"
log=$out/confirm.log
: > "$log"
git -C /repo worktree remove --force "$wt" >/dev/null 2>&1
git -C /repo worktree add -q --detach "$wt" HEAD || exit 2
cleanup() { git -C /repo worktree remove --force "$wt" >/dev/null 2>&1; rm -rf "$wt"; }
trap cleanup EXIT
cd "$wt" || exit 2
cp "$src"/*_test.go "$dest"/ 2>>"$log" || { echo "no demo file" >>"$log"; }
echo "== head: $(git rev-parse --short HEAD)  demo environment: ${DEMO_ENV:-default}" >>"$log"
echo "== demo without the change (must pass)" >>"$log"
env ${DEMO_ENV:-} go test -vet=off -count=1 -run "$re" "$pkg" >>"$log" 2>&1; r1=$?
echo "exit=$r1" >>"$log"
echo "== apply patch" >>"$log"
git apply "$src/patch.diff" >>"$log" 2>&1; ra=$?
echo "exit=$ra" >>"$log"
go build ./... >>"$log" 2>&1; rb=$?
echo "== build with the change: exit=$rb" >>"$log"
echo "== demo with the change (must fail)" >>"$log"
env ${DEMO_ENV:-} go test -vet=off -count=1 -run "$re" "$pkg" >>"$log" 2>&1; r2=$?
echo "exit=$r2" >>"$log"
rm -f "$dest"/zz_demo_*_test.go
rs=skipped
if [ -z "$skip" ]; then
  echo "== full existing suite with the change" >>"$log"
  go test -vet=off -count=1 -timeout 60m ./... > "$out/suite.log" 2>&1
  # known environment failures (offline DNS, 10ms wall-clock bound) are not attributable to the change;
  # a package that fails under machine load is run again alone and only counts if it fails again
  fails=0
  for pkg in $(grep -E "^FAIL\s" "$out/suite.log" | awk '{print $2}' | grep -v -E "conditions/node|pkg/query/dns"); do
    echo "== re-running $pkg alone" >> "$out/suite.log"
    # (pkg/e2etest compares live packet counts and is flaky on a loaded machine, also on the unmodified tree: up to three tries)
    ok=0
    for try in 1 2 3; do
      if go test -vet=off -count=1 -timeout 60m "$pkg" >> "$out/suite.log" 2>&1; then ok=1; break; fi
    done
    [ $ok = 1 ] || fails=$((fails+1))
  done
  rs=$fails
  grep -E "^(ok|FAIL)\s" "$out/suite.log" >>"$log"
  echo "unexpected failing packages: $fails" >>"$log"
fi
cp "$src/patch.diff" "$out/patch.diff"
cp "$src"/*_test.go "$out"/ 2>/dev/null
cp "$src/demo_path.txt" "$out"/ 2>/dev/null
cp "$src/meta.json" "$out/agent_meta.json" 2>/dev/null
verdict=rejected
if [ $r1 -eq 0 ] && [ $ra -eq 0 ] && [ $rb -eq 0 ] && [ $r2 -ne 0 ] && { [ "$rs" = "0" ] || [ "$rs" = "skipped" ]; }; then verdict=confirmed; fi
echo "VERDICT $name: $verdict (demo_without=$r1 apply=$ra build=$rb demo_with=$r2 suite_unexpected_fail=$rs)" | tee -a "$log"
