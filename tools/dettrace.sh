#!/bin/bash
# usage: dettrace.sh <test-binary> <prop> <from> <to> <repeats> [gomaxprocs]
# Runs the same runs <repeats> times in separate processes with full decision traces and reports runs whose traces differ.
B=$1; P=$2; F=$3; T=$4; N=$5; G=${6:-1}
D=$(mktemp -d /tmp/dettrace-XXXX)
for k in $(seq 1 $N); do
  mkdir -p $D/$k
  ( VERIF_PROP=$P VERIF_MODE=batch VERIF_TIER=quick VERIF_SEED=${VERIF_SEED:-20260921} VERIF_FROM=$F VERIF_TO=$T VERIF_STRIDE=1 VERIF_BUDGET_S=600 VERIF_DET=1 VERIF_OUT=$D/$k/out.json VERIF_KNOWN=/verif/known_findings.json VERIF_TRACE_DIR=$D/$k GOMAXPROCS=$G $B -test.run '^TestSim$' -test.timeout 0 >$D/$k/log 2>&1 ) &
  if (( k % 12 == 0 )); then wait; fi
done
wait
for i in $(seq $F $((T-1))); do
  n=$(md5sum $D/*/run-$i.trace 2>/dev/null | awk '{print $1}' | sort | uniq -c | sort -rn | awk '{printf "%s ", $1}')
  set -- $n
  [ $# -gt 1 ] && echo "run $i: variants $n"
done
echo "traces in $D"
