#!/usr/bin/env python3
"""Prepares the scratch worktree and the instructions file of a sub-agent that is to write a
change breaking one property (the agent gets the property text and its worktree, nothing from
/verif).  usage: agent_brief.py <wave> <property> [<property> ...]
Creates /tmp/agents/<wave>-<prop>/ (git worktree of /repo HEAD) with _out/property.json and
_out/INSTRUCTIONS.md; the summaries of changes that already exist for the property are listed as
"do something different"."""
import json, os, subprocess, sys, glob

HINTS = {
 "C01": "a particular sequence of separate open/write/close sessions on one day (different compression settings per session, an empty block followed by a large one, a block that does not compress written after one that does), a block size relative to the 4 KiB write buffer or the pooled scratch buffers, a particular reader mode (default vs. read-all/in-memory) or read order (sequential vs. backwards vs. same block twice), many blocks in one day",
 "C02": "data written by ONE particular build configuration (cgo, CGO_ENABLED=0, -tags goprobe_noliblz4, -tags goprobe_nolibzstd) and read by ANOTHER, a particular compression level, block size or content, a day appended to by two different builds (the repository must still compile in all four configurations)",
 "C03": "a particular sequence of block timestamps (equal, decreasing, a gap larger than 32 bits, negative), counters or per-block flow counts near 2^32 / 2^64, a day with zero or very many blocks, a metadata file cut off at a particular byte or with a particular field damaged (the reader must return an error, never panic, hang or allocate absurd amounts)",
 "C04": "the writing process being killed at one particular point of a write-out (between two particular file-system operations, or in the middle of one write), for a particular kind of day (first block of a new day / month, a day that already has blocks), followed by a restart and further write-outs and queries",
 "C05": "an I/O error (ENOSPC, EIO, EACCES, a partial write) at one particular file-system call of a write-out, a particular sequence of failed and successful write-outs, an error while closing or renaming",
 "C06": "a particular kind of damage (truncation at a particular place, flipped bits in a length/offset field, a file of another day or column swapped in, an empty file, trailing garbage) in one particular file of ONE day, at a particular position (first/middle/last block; first/inner/last day of the queried range), possibly combined with a worker count or low-memory mode; rows of OTHER days must stay exact, nothing may crash or hang, skipped blocks must be counted",
 "C07": "a particular history of calls on ONE long-lived encoder instance (a failed call followed by a good one, a level change between calls, a large input followed by a small one, compress and decompress interleaved), a destination writer that fails or accepts only part of the data, a source reader that returns an error, a scratch buffer of a particular length/capacity relation to the input, a particular input size class or compressibility",
 "C08": "a particular combination of query attributes, condition shape (comparator, network prefix length, IPv4 vs IPv6 literal, a condition on an attribute that is not queried, disjunction, negation), data shape (a block with both IP versions or with zero flows of one, a flow present in several blocks/interfaces, counters near 2^32), time range bounds (exactly on a block timestamp, inside a day), direction filter, worker count or low-memory mode; the result must be WRONG, not just differently ordered",
 "C11": "a particular number of worker goroutines relative to the number of day directories / work bulks, a particular order in which workers finish, low-memory mode on vs off, a number of days around a queue or batch capacity, an interface with no data in range next to one with data, an error or cancellation in one worker while others continue",
 "C12": "a particular relation of the listed time range to the stored blocks (a bound exactly on a block timestamp, one second off, a range inside one day, first == last, a range ending exactly at midnight, a range covering no block of its first or last day), a day with a single block, a month or year boundary, an interface with days missing in between",
 "C15": "a particular order in which host replies arrive, a particular mix of failed and successful hosts, a host that answers only after a retry, an empty result arriving before/after a non-empty one, rows that collide across hosts, a particular MaxConcurrent, streaming vs non-streaming",
 "C20": "a conversation that spans a rotation (or is idle for exactly one interval and then active again), a particular order of the two directions around a rotation, a particular protocol (ICMP, ESP/GRE without ports, UDP between two common or two ephemeral ports), IPv6 only, two conversations that differ only in the source port",
 "C21": "packets of a particular kind (IP version, protocol, direction, size, flags, fragments) arriving at a particular moment relative to the three-point lock protocol of the capture (before the lock request, between request and confirmation, inside the pause window, between the unlock request and its consumption), a particular number of packets in the window, a particular order of lock requests (rotation, status, live query)",
 "C22": "a particular pair of ports (both below 1024, both ephemeral, equal, exactly 1023/1024 or 32767/32768, well-known service ports on both sides), particular TCP flag combinations on the first packets (SYN with ECN bits, SYN-ACK first, RST, FIN), ICMP / ICMPv6 type pairs other than echo, IPv6 vs IPv4, the reverse packet arriving in the next interval",
 "C23": "a particular sequence of inserts around the growth steps of the buffer (exactly filling it, one byte short, an IPv6 item where only an IPv4 item would fit), a particular size limit (not a power-of-two multiple of the initial size, smaller than the initial size, exactly one element), a refused insert followed by a drain and further inserts, particular field values (packet size above 16 bits, aux byte 0xff, error codes)",
 "C24": "a particular combination of day states on the two sides (complete vs partial vs missing, blocks with equal timestamps but different content, a day present only in the destination), option combinations (overwrite, dry run, interface subset), merging the same source twice, several interfaces where only one has conflicts",
 "C25": "the merging process being killed at one particular point (between two particular file-system operations), for a particular kind of day (existing vs. missing in the destination, copied vs. rebuilt), followed by queries and a later, uninterrupted merge",
 "C26": "a particular CSV shape (schema with or without iface column, header vs --schema, padded cells, rows sharing interface+time+key, the first row of a new timestamp, rows whose time goes backwards, a malformed row at a particular position such as the last row or right after a timestamp change, IPv6 rows after IPv4 rows, MaxRows hit in the middle of a timestamp group), or the file being read in unusual chunk sizes",
 "C27": "a particular SEQUENCE of configuration updates (remove and re-add, change a field and change it back, explicit name vs regular expression vs auto-detection selecting the same interface, an update that changes nothing, two updates within a second or around a rotation), a particular settings field, an interface that (dis)appears from the host's link list between updates",
 "C29": "a live query issued at a particular moment (right after a rotation, between two packets of a conversation, while another live query or status call runs), a particular combination of attributes/condition/direction filter with in-memory flows of a particular kind, a live query repeated between two rotations, an interface subset",
 "C30": "a specific interleaving of a reader (query or interface listing) with a concurrently running writer (write-out that appends a block, rewrites the metadata and renames the day directory): the commit falling between two particular reads of the reader, the directory being renamed between lookup and open, a day/month rollover in between",
 "C31": "a caller whose wait for a slot times out at the moment a slot is released, a caller cancelled while waiting or executing, a query failing at a particular stage after it took a slot, a burst of more callers than slots, a particular keep-alive/time-out setting, a panic in a query",
}

TEMPLATE = """You are helping test a verification effort by playing the role of a developer who introduces a subtle regression into an open-source Go project (els0r/goProbe: a packet-capture flow aggregator with goDB, a custom columnar time-partitioned flow database with compression, a condition query language, a parallel query engine, a distributed query front-end and a custom hashmap).

Your private scratch git worktree of the repository is {wt} . Work ONLY inside that directory. Do NOT read or touch /repo, /verif, /root/.vp, or any other directory under /tmp - this is essential, the result must be independent of anything there. NEVER use `git stash` (the stash is shared between worktrees and other people work in sibling worktrees); to go back and forth between the clean and the changed tree use `git diff > {wt}/_out/patch.diff`, `git apply -R` and `git apply`.

The semantic property you must break is described in {wt}/_out/property.json (read it first: title, statement, quantifier, why the tests cannot settle it, and anchors that point at the relevant code).

TASK: produce a realistic change to the goProbe source (non-test .go files) such that
 1. the repository still compiles (`go build ./...`) and the EXISTING test suite still passes with the change (`go test -vet=off -count=1 ./...` from the repo root; two tests are known to fail in this offline sandbox even on unmodified code and can be ignored: pkg/goDB/conditions/node TestResolveInConditional (needs DNS) and pkg/query/dns TestTimeout (wall-clock bound));
 2. the property is genuinely violated by the changed code - but ONLY under something specific, for example: {hint}; or two cooperating sites that each look fine alone. Ordinary use (what the existing tests and a casual user do) must behave as before; changes that would be noticed at once are NOT wanted. The change should look like a plausible refactoring / optimisation / clean-up / bug-fix gone wrong, small (a few lines to a few dozen), with no comment that gives it away;
 3. you provide a demonstration: a Go test file named zz_demo_{prop}_test.go (or a small program) that FAILS with your change and PASSES without it, deterministic as far as possible (force orders and faults by construction: internal functions, hand-made on-disk states, t.TempDir(), channels; a stress loop that fails only sometimes is a last resort - say how reliable it is).

{previous}
Read the anchored code and its callers and find your own idea; prefer a mechanism and a place that differ from the ones listed above.

ENVIRONMENT: the sandbox is offline. Use `export GOPROXY=off` and plain `go` (it selects a cached toolchain by itself; do NOT set GOFLAGS or GOSUMDB - the repository has a go.work file). The full suite takes several minutes; run it once at the end with the change applied and the demo file(s) removed (save the output to _out/suite.log). The machine is shared and often heavily loaded, so tests may be slow: use generous timeouts; a test that fails only under load and passes when its package is re-run alone does not count against you (say so in meta.json).

DELIVERABLES, all in {wt}/_out/ :
 - patch.diff : `git diff` of the source change ONLY (no demo files, no _out), must apply with `git apply` to a clean checkout of the worktree's HEAD;
 - the demo test file(s) (copy), and demo_path.txt containing exactly three lines: the directory (relative to the repo root) the demo file must be copied into, the package path to pass to go test (e.g. ./pkg/goDB/), and the -run regex (further lines only for special needs such as CGO_ENABLED=0);
 - meta.json with keys: property ("{prop}"), summary (what was changed and why it looks innocent), needs_to_manifest (the specific situation needed), commands_run (list), suite_passes_with_change (bool), demo_fails_with_change (bool), demo_passes_without_change (bool).
Verify all three claims yourself before finishing (demo passes on the clean tree, fails with the change, suite passes with the change). At the end leave the worktree with your change applied and the demo file in place. Report briefly what you did.
"""

def main():
    wave = sys.argv[1]
    for prop in sys.argv[2:]:
        wt = f"/tmp/agents/{wave}-{prop}"
        if not os.path.isdir(wt):
            os.makedirs("/tmp/agents", exist_ok=True)
            subprocess.run(["git", "-C", "/repo", "worktree", "add", "-q", "--detach", wt, "HEAD"], check=True)
        os.makedirs(wt + "/_out", exist_ok=True)
        for l in open("/verif/properties.jsonl"):
            p = json.loads(l)
            if p["id"] == prop:
                json.dump(p, open(wt + "/_out/property.json", "w"), indent=1)
        prev = []
        for d in sorted(glob.glob(f"/verif/seeded/{prop}-*")):
            try:
                am = json.load(open(d + "/agent_meta.json"))
                prev.append("- " + am.get("summary", "").strip().replace("\n", " ")[:700])
            except Exception:
                pass
        previous = ""
        if prev:
            previous = "Changes that ALREADY EXIST for this property - do something DIFFERENT (another place, another mechanism):\n" + "\n".join(prev) + "\n"
        open(wt + "/_out/INSTRUCTIONS.md", "w").write(TEMPLATE.format(wt=wt, prop=prop, hint=HINTS.get(prop, "a particular input, sequence, interleaving or fault"), previous=previous))
        print(wt)

main()
