#!/usr/bin/env python3
"""Regenerates MANIFEST.json from the table below (the single place where claims are listed)."""
import json, os, subprocess
here = os.path.dirname(os.path.dirname(os.path.abspath(__file__)))

NA = {
 "C09":"pure function of (condition, flow key): no schedule, clock, disk, peer or fault enters the statement; its semantics are exercised indirectly by the C08/C29 oracles",
 "C10":"pure text->text->AST function; its only nondeterminism (Go map iteration order) has no seam a simulator can own",
 "C13":"pure function of rows and bin size",
 "C14":"pure function of a row multiset and sort parameters",
 "C16":"pure function of (argument string, set of existing interface names)",
 "C17":"pure encode/decode round trip",
 "C18":"sequential data structure without concurrency, I/O or timing; its seed comes from the runtime RNG with no seam",
 "C19":"pure function of header bytes",
 "C28":"pure parsing; the relative form reads the clock once, which a simulated clock can only pin, not stress",
}
ALL = ["C%02d" % i for i in range(1, 32)]

# id -> (engine, level, design_ref, technique, level text, level note)
CLAIMS = {
 "C04": ("store-sim", "fault_enumeration", "7.4",
   "deterministic simulation: real writer/reader/query code over a simulated disk, process kill enumerated at every mutating file-system operation (and torn writes) of every write-out of seeded histories; post-crash oracle against a reference store model",
   "Per generated write-out history every mutating file-system operation boundary and three (thorough: up to 50) torn lengths of every write are enumerated as kill points; after each kill the database is read back through the real reader, listing and query code and compared with the model of acknowledged write-outs (the in-flight block may be absent or present, never damaged), and follow-up write-outs must succeed. Histories are sampled by seed, crash points per history are exhaustive.",
   "Crash model is process kill (completed system calls survive; goProbe never fsyncs, power loss is out of scope). simfs is validated against the kernel by a differential self-test. Known findings (known_findings.json) are reported as KNOWN-FINDING and do not stop the run."),
 "C01": ("store-sim", "exploration", "7.1",
   "deterministic simulation: seeded histories of write sessions with restarts over a simulated disk, read back through the real reader against a reference store model",
   "Seeded histories of 2-6 raw write sessions (arbitrary column payloads from 0 B to 300 KiB biased to the 4 KiB bufio / 8 KiB scratch buffer sizes, compressible and incompressible, lz4/zstd/null, levels 0-12, several days and interfaces, process restart between sessions) followed by flow-level write-outs; some sessions write no block at all; after every session every block written so far is read back through the real reader (default mode forwards, read-all mode backwards, default mode in zigzag order with a block read twice) and compared byte for byte, with per-block and per-day summaries, against the model.",
   "Sampled, not exhaustive. Fault-free configuration (faults are C04/C05). cgo encoders (the native builds are C02)."),
 "C02": ("store-sim", "exploration", "7.2",
   "deterministic simulation: restart into a differently built binary over one simulated disk image - the cgo and the pure-Go compression back ends of the current tree are compiled into one harness binary through a build-time seam on encoder.New, the simulator decides per write session and per reader which of the four build configurations the (re)started process is; read back through the real reader and query engine against a reference store model",
   "Seeded histories of 1-4 raw write sessions (arbitrary column payloads 0 B-300 KiB biased to the 4 KiB / 8 KiB buffers, compressible and incompressible, lz4/zstd/null, levels 0-12) and 1-4 flow-level write-outs; every session is executed by a freshly started writer of a drawn build configuration (cgo, CGO_ENABLED=0, goprobe_noliblz4, goprobe_nolibzstd; a new draw per session / one non-default build throughout / the same history written by two builds on two disks); after every session a freshly started reader of a drawn build, after the last session one of each build, reads every block back byte for byte (both reader modes, summaries) and queries the flow-level interfaces through the real engine. A second, encoder-level variant (stream-sim, shares the wall budget) compresses generated inputs with both back ends of a method at levels 1-12 (lz4) / 1-19 (zstd) and has each frame decoded by the other back end.",
   "The four back-end files (all code that differs between the builds) run as real code; the build configuration itself is simulated (run-time switch instead of build tags), so what a CGO_ENABLED=0 linker or a missing system library does is not covered. Sampled, not exhaustive."),
 "C07": ("stream-sim", "exploration", "7.7",
   "deterministic simulation with fault injection: each compressor implementation (cgo and pure-Go back ends in one binary) driven as stateful stream code by a seeded history of Compress/Decompress/SetLevel calls with scratch buffers of drawn length/capacity and dirty contents, destination writers that fail after j bytes and source readers with short reads, errors and EOF mid-block; round-trip oracle incl. the call after a failed call",
   "One long-lived instance per run (lz4/zstd x cgo/pure Go, null; default or drawn level) receives 4-16 calls: inputs of 0 B-600 KiB (zeros, text, incompressible, mixed, sparse), scratch buffers nil / empty with capacity / len 8192 cap 16384 (the storage layer's) / capacity just above the input length / shorter than the input / longer than any output / reused, writers failing after j bytes, readers with short read / error / EOF mid-block. Checked: reported count = bytes that reached the writer (also on failure), a writer error is reported, input unmodified, every fault-free frame decodes to the input on the same instance, a second long-lived instance and a fresh one (with dirty in/out buffers, nothing written beyond len(out)), a read fault yields an error or correct data and leaves the instance usable, all frames decode at the end.",
   "The input space is sampled (the property quantifies over all inputs up to several hundred KiB). A crash of the process in C code (signal) is attributed to the run by the driver and reported as process-crash."),
 "C03": ("store-sim", "exploration", "7.3",
   "deterministic simulation: seeded write histories with a jumping clock (non-monotone stamps, huge gaps, extreme counts) checked accepted=>reopens equal / rejected=>unchanged, plus torn and damaged metadata images fed to every reader entry point",
   "Seeded histories whose timestamps come from a clock that jumps (equal, backwards, before the day's first block, gaps of 2^32-1 and beyond, negative) with summaries beyond 2^32-1 and counters near 2^64: every session is either rejected with the reopened day unchanged or accepted with the reopened day exactly equal to the model. Then >= 30 malformed variants of the real .blockmeta (in the thorough tier every prefix of a metadata file of up to 400 bytes, and 400 prefixes of a larger one = what a torn metadata write leaves, bit flips, garbage, blown-up count/length fields) are fed to the reader, listing, query engine and the writer's open path; a panic or an allocation > 128 MiB for a KiB-sized database is a violation.",
   "Length fields in damaged metadata are clamped to 256 MiB (the reader allocates twice the declared length; larger values cost > 8 GiB per probe) - the allocation behaviour itself is reported as a known finding. A hang would surface as worker time-out (exit 2)."),
 "C05": ("store-sim", "fault_enumeration", "7.5",
   "deterministic simulation with fault injection: one injected errno (ENOSPC/EIO/EACCES/EMFILE/EPERM, partial write+ENOSPC) enumerated at every file-system call of every write-out of seeded histories, sticky disk-full spans and fault sequences; oracle against a reference store model after the fault clears",
   "Per generated history one error is injected at every file-system operation of every write-out (errno rotated per op in the quick tier, every applicable errno in the thorough tier), a partial write at every write, sticky disk-full spans, and in the thorough tier a second fault in the retry. The call must report an error unless the data is fully committed; afterwards the database must read back as the acknowledged write-outs (an error at/after the commit point may leave the block visible), listing and queries must agree, and later write-outs must succeed and read back.",
   "Only errors a Linux kernel can return for that operation on a regular file (no short reads, no EINTR). Enumeration is exhaustive per generated history; histories are sampled."),
 "C12": ("store-sim", "exploration", "7.12",
   "deterministic simulation: seeded write-out histories over the simulated disk, real ReadMetadata for drawn (first,last) ranges compared with the reference model and with the totals of a real query",
   "After write-outs of a seeded history (1-2 interfaces, days incl. month/year ends) 12 ranges per interface are drawn with bounds on block stamps, +-1 s around them, between blocks, on day boundaries, before/after all data and first=last; DBWorkManager.ReadMetadata must equal the sum of the model's blocks with first <= t <= last (flows per IP version, drops, four counters) and its counters must equal Summary.Totals of an engine query over the same range.",
   "Fault-free configuration. Range bounds inclusive on both ends as in the query engine."),
 "C06": ("query-sim", "exploration", "7.6",
   "deterministic simulation with fault injection: stored-byte damage (truncation, bit flips, garbage, deleted/swapped/foreign files) of one day of a database written by the real writer; real query engine and listing; containment oracle against the reference query model",
   "A valid database (2 interfaces x 3 days) is written by the real writer, 1-3 damage faults hit column or metadata files of one (interface, day) - in one run of three one of them strikes while the first query is running, after a drawn number of its file-system operations (after the metadata was read, between column reads) - then queries with time/interface labels (1-4 workers, low-mem on/off) and both interface summaries run: no crash (a panic in a worker goroutine kills the worker process and is reported as process-crash), a result instead of an error, rows of every undamaged day exactly as the model, skipped blocks counted in Summary.Stats when the metadata is intact.",
   "No checksums exist, so rows attributed to the damaged day are unconstrained. Length fields of damaged metadata are clamped to 64 MiB (allocation behaviour is a C03 known finding)."),
 "C08": ("query-sim", "exploration", "7.8",
   "deterministic simulation (fault-free configuration): databases written by the real writer on the simulated disk, generated queries executed by the real engine with drawn worker count / memory mode, compared with an executable reference aggregation (M_query) that evaluates generated condition ASTs independently",
   "Per generated database 6-15 generated queries (attribute subsets, time/iface labels, condition trees of depth <= 3 over all attributes, comparators and sugared forms with IPv4/IPv6 literals and networks of every prefix length, ranges on/around block stamps and day boundaries, direction filters, interface subsets, 1-16 workers, low-mem on/off): rows as multiset, Summary.Totals and Hits.Total must equal the reference aggregation of the stored flows.",
   "Row order is not compared. Conditions follow the C09 semantics. Two known deviations are classified by dedicated clauses (family pruning, IPv6 rendering)."),
 "C11": ("query-sim", "exploration", "7.11",
   "deterministic simulation: seeded scheduler (testing/synctest bubble + parking at every file-system operation) decides which query worker goroutine proceeds; worker count via guarded hook; results compared across configurations and with the reference model; bounded liveness for termination",
   "One database and query run under 3-5 configurations (1-16 workers, low-mem on/off), each under a seeded schedule (uniform, burst, priority with change points, run-to-completion with preemption) that picks the next worker at every file-system operation, so bulk completion and merge order vary; rows and totals must equal the sequential run and the model. In one run of three the writer has just started a new day (one or two day directories without metadata, possibly with a first column file), which every configuration must skip. One run in eight builds 2047-2112 day directories and demands that a single-worker query returns within one simulated hour of idling.",
   "Interleavings are controlled at file-system operations; code between two operations runs under the Go scheduler (results are compared as multisets)."),
 "C24": ("merge-sim", "exploration", "7.24",
   "deterministic simulation (fault-free configuration): real MergeDatabases over a read-only source disk and a destination disk for generated database pairs; destination compared with an executable model of the documented per-day plan; source mutations detected at operation level",
   "Generated pairs (1-3 interfaces x 1-3 days, each day missing / clearly partial / clearly complete on either side, colliding block stamps with different payloads) and options (overwrite, interface subset, tolerance) run as dry run, merge and repeated merge: destination content equals M_merge, MergeSummary equals the planned actions, the dry run leaves the destination tree byte-identical, any mutating file-system operation under the source mount is a violation, a second merge changes nothing.",
   "Days are generated clearly complete or clearly partial so the oracle does not mirror the completeness heuristic's tolerance arithmetic."),
 "C25": ("merge-sim", "fault_enumeration", "7.25",
   "deterministic simulation with fault injection: process kill enumerated at every structural file-system operation (and sampled, partly torn, data writes) of real merges; post-crash oracle through the real query engine, listing and a later merge",
   "For each generated pair the merge is killed before every mkdir/create/rename/remove/chmod (capped at 120, thorough 600; renames and removes always kept) and at sampled writes (half torn). After each distinct post-crash disk state: interface listing returns exactly real interfaces, an any-query succeeds, every (interface, day) returns either its pre-merge rows or its merged rows through the real engine (a day that returns nothing is judged before the known leftover classes), and a later uninterrupted merge succeeds and yields M_merge.",
   "Crash model is process kill. Data writes of large days are sampled; structural operations are enumerated."),
 "C26": ("store-sim", "exploration", "7.26",
   "deterministic simulation: generated CSV files read through a simulated file that returns drawn chunk sizes per read; real importer; destination queried through the real engine and compared with the reference model",
   "Generated CSV files (permuted schemas with/without iface column, header or --schema, IPv4/IPv6 rows, padded cells, eight kinds of malformed rows, duplicate keys, time regressions, MaxRows) are imported twice with different read chunking (1..4096 bytes per read): RowsRead = RowsImported + RowsSkipped and equal the model's counts, the destination holds exactly the accepted rows (summed per key) - also for queries that start or end at a day boundary of the imported data -, time regressions are rejected, the result does not depend on the chunking.",
   "Short reads are injected only on the CSV input, never on database files."),
 "C30": ("query-sim", "exploration", "7.30",
   "deterministic simulation: writer and reader processes on one simulated disk, seeded scheduler interleaves their file-system operations; recorded history (start/end step of every write-out and query) checked for per-day prefix consistency against the reference model",
   "A writer performs 1-4 write-outs (some crossing a day/month/year boundary; every commit renames the day directory) while a reader runs 1-3 queries with time labels or listings (upper bound far in the future, or on / between the blocks being written); in one run of six the range holds 31 older days, so that a day the writer starts is alone in a work bulk; the scheduler decides at every file-system operation of either process who proceeds. Oracle: no error, no corrupted blocks, per day a prefix of the committed blocks bounded by [completed before the query started, started before it ended], every visible block exactly as written.",
   "The model-checked clause of the statement is a different technique and is not claimed. Interleavings are controlled at file-system operations."),
 "C31": ("query-sim", "exploration", "7.31",
   "deterministic simulation: bursts of client goroutines on query runners sharing one semaphore, seeded scheduler + fake clock (semaphore time-outs), failures after slot acquisition and cancellations injected; history oracle over scheduler steps",
   "K in 1..3 slots, K+1..3K+2 clients issue 1-2 queries each at drawn simulated instants; a call succeeds, fails with an I/O error on the interface listing (after the slot was taken) or is cancelled at a drawn operation; the scheduler interleaves at every file-system operation and advances the fake clock so TryAddFor time-outs expire. Checked: executing <= K at every step, 'too many requests' only if all K slots were held throughout the waiting window, no slot held after quiescence, K fresh queries succeed, every caller returns.",
   "Two variants share the wall budget of the check: the engine variant (query-sim: each client its own engine.QueryRunner on the shared semaphore) and the distributed variant (dist-sim: one shared distributed.QueryRunner with WithMaxConcurrent, failures after slot acquisition = resolver error, query safeguard, all hosts down; cancellations after a drawn delay; host replies take 0-2 s of simulated time)."),
 "C15": ("dist-sim", "exploration", "7.15",
   "deterministic simulation: real distributed query runner, API client querier (fan-out/fan-in) and HTTP client stack (retries, back-off, request time-out) over a simulated transport and fake clock; the seeded scheduler decides which in-flight request is answered next; results of several schedules compared with each other and with a reference merge",
   "2-6 simulated hosts with generated results (rows that collide across hosts, empty results, replies without per-host statuses, different First/Last, statistics) and per-host fault scripts (delays, lost connection then success, 500/502/429 then success, permanent 500, partition until the request time-out, unreachable, 200 with a cut-off body, connection reset while the body is read) are queried 3-4 times through the real runner with MaxConcurrent 1..N under different seeded schedules plus once through RunStreaming; all merged results must be equal to each other and to the reference merge of the hosts whose final outcome is success (rows as multiset with summed counters, totals, hits, statistics, interfaces, per-host statuses, First/Last, status code); partial results of the streaming run never exceed the final result.",
   "The hosts' own query engine is not run behind the transport (their answers are generated results serialised with the real marshalers). Row order, timing fields and error texts (only presence) are not compared. Malformed bodies (cut-off JSON, connection reset while the body is read) are injected as permanent faults only: whether the client retries them is its policy, not part of the property."),
 "C20": ("capture-sim", "exploration", "7.20",
   "deterministic simulation: real capture manager with simulated packet sources, fake clock (testing/synctest), simulated disk and a seeded scheduler at every seam; class-wise conservation oracle (orientation-tolerant) over all written blocks plus in-memory flows",
   "One interface, 1-6 generated conversations (both IP versions, TCP/UDP/ICMP/ESP/GRE, both directions, common and ephemeral ports, fragments, truncated headers, non-IP frames) delivered in bursts at drawn simulated instants (some exactly on rotation ticks) while the real rotation ticker, status calls and live snapshots run; the scheduler interleaves packet delivery, the capture loop, lock/unlock, rotation and write-out. Oracle: per class of conversations sharing candidate stored keys the four counters summed over all blocks (read back through the real reader) plus the in-memory flows equal the parsed packets; every record key is a candidate key of a delivered conversation (no source port, right family); no empty record; no conversation in two records of one block.",
   "Orientation of non-decisive conversations is not predicted (that is C22). The Processed/ParsingErrors counter equation is not checked."),
 "C21": ("capture-sim", "exploration", "7.21",
   "deterministic simulation: as C20 with small local-buffer limits and large bursts so that packets arrive before the lock request, between request and confirmation, inside the pause window and around the unlock; loss accepted only up to the number of reported local buffer overflows",
   "One run in four captures on two interfaces that share the pool's one local buffer (twin bursts around the rotations; conservation per interface). Otherwise the C20 scenario with the local buffer limit drawn from {4096, 4097, 4100, 6000, 8192, 12288, 100000, 64 MiB} and bursts of 150-750 packets: pause windows of write-outs, status calls and live snapshots contain IPv4 and IPv6 packets (probes: packets in window, IPv6 in window, buffer grown, overflow). Class-wise conservation must hold exactly unless 'local packet buffer overflow' was logged, in which case at most that many packets may be missing.",
   "With an overflow the lost packets are checked by count and per-class upper bounds, not attributed individually. Non-IP frames are excluded."),
 "C22": ("capture-sim", "exploration", "7.22",
   "deterministic simulation, metamorphic over arrival order: the same conversation delivered to two interfaces of one real capture manager, request first on one, response first on the other; stored orientation compared",
   "Conversations of five kinds (TCP handshake incl. ECN flag variants, ICMP echo, ICMP timestamp, ICMPv6 echo, TCP/UDP without handshake flags with ports drawn at the class boundaries) are delivered in both arrival orders, followed by further packets; whenever the documented heuristics are decisive for both first packets the stored (sip,dip) must be equal in both orders and run from requester to responder; in every case the conversation must end up in one record.",
   "Ports are sampled (19 values at the class boundaries in half of the runs, uniform draws from the client / server ranges in the other half), not the exhaustive 2^32 pairs the property mentions."),
 "C23": ("capture-sim", "exploration", "7.23",
   "deterministic simulation: the local packet buffer exercised in situ by the C21 scenario (adds while paused, drain-all, reset) with the size limit as a randomised knob; field preservation via class-wise conservation, refusal legitimacy via per-cycle byte accounting at the source seam",
   "Pause-window length (schedule) and size limit (knob) determine the add/grow/refuse/drain sequence. Drained items must reproduce key, IP version, direction, TCP flags / ICMP type, parse status and size (observable through orientation, direction counters and sizes in the flow log: class-wise conservation), and every reported overflow needs a lock cycle whose packets occupy at least the limit (an insert may be refused only when the buffer has reached its size limit).",
   "Two runs in three explore the production call pattern in situ; one run in three drives the bare buffer against a reference FIFO (1-4 cycles of inserts with every value of key, IP version, packet type, aux byte, parse status and a 32-bit size, complete drain, reset, limits around the growth steps): items must come out in order with every field intact, nothing more than what was accepted, and no refusal while less than half of the limit is in use."),
 "C27": ("capture-sim", "exploration", "7.27",
   "deterministic simulation: histories of configuration updates over a small interface universe (guarded host-link hook) with traffic and clock steps (0 s, 0.4 s, 2 s, 299 s, 301 s) in between; selection model compared with running captures and their settings (guarded accessor); conservation per interface at the end",
   "2-6 updates (explicit names, explicit disables, overlapping regular expressions with different settings, auto-detection with excludes, changes of every CaptureConfig field) with packets on every running interface and a clock step before each update, then shutdown; in one update of four the capture source of one interface cannot be opened (injected fault), after which the same configuration is applied again with the fault cleared and the interface must come up. After each update: running captures = selected interfaces, settings = those the configuration assigns (ambiguous selections are re-applied 16 times and must not change); at the end everything read from any interface must be in the database; a logged 'failed to perform writeout' is a violation.",
   "Which of two overlapping patterns wins is not demanded. Runs depend on Go map iteration order inside goProbe (enable/disable lists), so replay and minimisation steps are retried (RuntimeRandom)."),
 "C29": ("capture-sim", "exploration", "7.29",
   "deterministic simulation: real engine live queries (WithLiveData) against the running capture manager, bracketed by direct snapshots of the in-memory flows; reference aggregation over stored plus in-memory flows; paired run without live queries",
   "One captured interface (two runs in three) or two to three captured interfaces plus, in half of those runs, an interface that only exists in the database. After each packet batch (before and after rotations) a generated live query (attribute subsets, condition trees, direction filters) runs through engine.QueryRunner with live data; two direct snapshots taken before and after it fix the in-memory flows at its linearisation point; rows must equal the reference aggregation over stored records plus in-memory flows. The same scenario is then run without live queries and the final database contents must be equal.",
   "Live queries are generated without the time label; with several interfaces they carry the interface label or name a subset. A live query overlapping a rotation is skipped. Conditions with address literals of one family are excluded (C08 finding)."),
}

ENGINES = {
 "store-sim": ("harness/store", "real gpfile/DBWriter/reader/listing/query/CSV-import code over the simulated disk; seeded histories of write sessions, restarts, kills, torn writes and I/O errors"),
 "stream-sim": ("harness/enc", "real compressor implementations (cgo and pure-Go back ends compiled into one binary through the build-configuration seam) driven as stateful stream code with dirty scratch buffers and fault-injecting writers/readers; also serves the encoder-level variant of C02 (frames written by one back end decoded by the other)"),
 "merge-sim": ("harness/merge", "real MergeDatabases over a read-only source disk and a destination disk; generated database pairs; kills at every structural operation"),
 "capture-sim": ("harness/capture", "real capture manager (three-point lock, packet loop, local buffer, flow log, rotation goroutine, write-out handler, DB writer, live-query path) with simulated packet sources, fake clock, simulated disk and a seeded scheduler at every seam (source calls, mutexes via simsync, file-system operations)"),
 "dist-sim": ("harness/dist", "real distributed query runner (cmd/global-query), API client querier and HTTP client stack over a simulated transport and fake clock; reply order, delays, losses, errors, partitions and semaphore time-outs decided by the simulator; also serves the distributed variant of C31"),
 "query-sim": ("harness/query", "real query engine over databases written by the real writer; worker count, memory mode, goroutine schedule (seeded scheduler in a synctest bubble), reader/writer interleaving, stored-byte damage and semaphore time-outs decided by the simulator"),
}

def main():
    hooks = subprocess.run(["git","-C","/repo","log","--format=%H %s"],capture_output=True,text=True).stdout.splitlines()
    hook_commits = [l.split()[0] for l in hooks if l.split(" ",1)[1].startswith("verif hook:")]
    checks = []
    for pid in ALL:
        if pid not in CLAIMS: continue
        eng, level, ref, tech, text, note = CLAIMS[pid]
        checks.append({
          "property_id": pid,
          "quick_cmd": f"./check {pid} --tier quick",
          "thorough_cmd": f"./check {pid} --tier thorough",
          "evidence_file": f"/verif/evidence/{pid}.json",
          "replay_cmd_template": f"./check {pid} --replay {{path}}",
          "engine": eng,
          "level_claimed": {"category": level, "text": text, "design_ref": "DESIGN.md section " + ref},
          "level_note": note,
          "technique": tech,
        })
    na = [{"property_id":k,"reason":v} for k,v in NA.items()]
    for pid in ALL:
        if pid not in CLAIMS and pid not in NA:
            na.append({"property_id":pid,"reason":"not claimed and NOT a not-applicable verdict: the property is a simulation target (DESIGN.md section 7), but its engine was not built in the time available (DESIGN.md section 12); nothing is asserted about it"})
    m = {
     "version":1,
     "setup_cmd":"./setup.sh",
     "hooks":{"guard":"verif","enable":"go1.26.8 test -c -tags verif -overlay <overlay generated from /repo's working tree> (GOTOOLCHAIN=local GOFLAGS=-mod=mod GOPROXY=off)",
       "baseline_off_cmd":"cd /repo && go test -vet=off -count=1 -timeout 25m ./... && cd plugins/contrib && go test -vet=off -count=1 -timeout 25m ./...",
       "source_commits":hook_commits,"add_only":True},
     "engines":[{"name":n,"path":p,"serves_properties":[c for c in ALL if c in CLAIMS and CLAIMS[c][0]==n],"kind_free_text":k} for n,(p,k) in ENGINES.items()],
     "checks":checks,
     "notes":"Deterministic simulation with fault injection; see DESIGN.md. All checks rebuild from /repo's working tree through a go/ast rewrite (os.* -> verif/simfs, sync.Mutex -> verif/simsync in capture packages, encoder.New -> build-configuration switch with the pure-Go back ends compiled in) handed to the go tool as -overlay; /repo is never modified. Exit 2 = machinery failure, never phrased as a violation.",
     "not_applicable":na,
    }
    json.dump(m, open(os.path.join(here,"MANIFEST.json"),"w"), indent=1)
    print("claimed:", len(checks), "not applicable/unclaimed:", len(na))
main()
