#!/usr/bin/env python3
"""Regenerates MANIFEST.json from the table below (the single place where claims are listed)."""
import json, os, subprocess
here = os.path.dirname(os.path.dirname(os.path.abspath(__file__)))

NA = {
 "C09":"pure function of (condition, flow key): no schedule, clock, disk, peer or fault enters the statement; its semantics are exercised indirectly by the C08/C29 oracles",
 "C10":"pure text->text->AST function; its only nondeterminism (Go map iteration order) has no seam a simulator can own",
 "C13":"pure function of rows and bin size",
 "C14":"pure function of a row multiset and sort parameters",
 "C16":"pure function of (argument string, set of existing interface names)",
 "C17":"pure encode/decode round trip",
 "C18":"sequential data structure without concurrency, I/O or timing; its seed comes from the runtime RNG with no seam",
 "C19":"pure function of header bytes",
 "C28":"pure parsing; the relative form reads the clock once, which a simulated clock can only pin, not stress",
}
ALL = ["C%02d" % i for i in range(1, 32)]

# id -> (engine, level, design_ref, technique, level text, level note)
CLAIMS = {
 "C04": ("store-sim", "fault_enumeration", "7.4",
   "deterministic simulation: real writer/reader/query code over a simulated disk, process kill enumerated at every mutating file-system operation (and torn writes) of every write-out of seeded histories; post-crash oracle against a reference store model",
   "Per generated write-out history every mutating file-system operation boundary and three (thorough: up to 50) torn lengths of every write are enumerated as kill points; after each kill the database is read back through the real reader, listing and query code and compared with the model of acknowledged write-outs (the in-flight block may be absent or present, never damaged), and follow-up write-outs must succeed. Histories are sampled by seed, crash points per history are exhaustive.",
   "Crash model is process kill (completed system calls survive; goProbe never fsyncs, power loss is out of scope). simfs is validated against the kernel by a differential self-test. Known findings (known_findings.json) are reported as KNOWN-FINDING and do not stop the run."),
}

ENGINES = {
 "store-sim": ("harness/store", "real gpfile/DBWriter/reader/listing/query code over the simulated disk; seeded histories of write sessions, restarts, kills, torn writes and I/O errors"),
}

def main():
    hooks = subprocess.run(["git","-C","/repo","log","--format=%H %s"],capture_output=True,text=True).stdout.splitlines()
    hook_commits = [l.split()[0] for l in hooks if l.split(" ",1)[1].startswith("verif hook:")]
    checks = []
    for pid in ALL:
        if pid not in CLAIMS: continue
        eng, level, ref, tech, text, note = CLAIMS[pid]
        checks.append({
          "property_id": pid,
          "quick_cmd": f"./check {pid} --tier quick",
          "thorough_cmd": f"./check {pid} --tier thorough",
          "evidence_file": f"/verif/evidence/{pid}.json",
          "replay_cmd_template": f"./check {pid} --replay {{path}}",
          "engine": eng,
          "level_claimed": {"category": level, "text": text, "design_ref": "DESIGN.md section " + ref},
          "level_note": note,
          "technique": tech,
        })
    na = [{"property_id":k,"reason":v} for k,v in NA.items()]
    for pid in ALL:
        if pid not in CLAIMS and pid not in NA:
            na.append({"property_id":pid,"reason":"check under construction (DESIGN.md section 7); not claimed yet"})
    m = {
     "version":1,
     "setup_cmd":"./setup.sh",
     "hooks":{"guard":"verif","enable":"go1.26.8 test -c -tags verif -overlay <overlay generated from /repo's working tree> (GOTOOLCHAIN=local GOFLAGS=-mod=mod GOPROXY=off)",
       "baseline_off_cmd":"cd /repo && go test -vet=off -count=1 -timeout 25m ./... && cd plugins/contrib && go test -vet=off -count=1 -timeout 25m ./...",
       "source_commits":hook_commits,"add_only":True},
     "engines":[{"name":n,"path":p,"serves_properties":[c for c in ALL if c in CLAIMS and CLAIMS[c][0]==n],"kind_free_text":k} for n,(p,k) in ENGINES.items()],
     "checks":checks,
     "notes":"Deterministic simulation with fault injection; see DESIGN.md. All checks rebuild from /repo's working tree through a go/ast rewrite (os.* -> verif/simfs, sync.Mutex -> verif/simsync in capture packages) handed to the go tool as -overlay; /repo is never modified. Exit 2 = machinery failure, never phrased as a violation.",
     "not_applicable":na,
    }
    json.dump(m, open(os.path.join(here,"MANIFEST.json"),"w"), indent=1)
    print("claimed:", len(checks), "not applicable/unclaimed:", len(na))
main()
