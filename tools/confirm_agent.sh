#!/bin/bash
# Confirms the delivery of a sub-agent (scratch worktree with _out/) and stores it under seeded/<name>.
#   tools/confirm_agent.sh <name> <agent worktree>
set -u
name=$1; wt=$2
out=$wt/_out
[ -f "$out/patch.diff" ] || { echo "no patch.diff in $out"; exit 2; }
mapfile -t L < "$out/demo_path.txt"
dest=${L[0]}; pkg=${L[1]}; re=${L[2]}
# optional fourth line: environment the demonstration needs (e.g. CGO_ENABLED=0 ...)
if [[ "${L[3]:-}" =~ ^([A-Z_]+=[^[:space:]]+) ]]; then export DEMO_ENV="${BASH_REMATCH[1]}"; fi
mkdir -p /tmp/confirm-src/$name
cp "$out"/patch.diff "$out"/*_test.go "$out"/demo_path.txt "$out"/meta.json /tmp/confirm-src/$name/ 2>/dev/null
/verif/tools/confirm_seeded.sh "$name" /tmp/confirm-src/$name "$dest" "$pkg" "$re"
rc=$?
rm -rf /tmp/confirm-src/$name
git -C /repo worktree remove --force "$wt" >/dev/null 2>&1; rm -rf "$wt"
exit $rc
