#!/bin/bash
# Re-runs every registered quick check in /verif against /repo (writes evidence/<id>.json), then
# validates the evidence files and the manifest against the schemas.
#   tools/regen_evidence.sh [tier]        (VERIF_SEED as exported, default of the driver otherwise)
set -u
tier=${1:-quick}
cd "$(dirname "$0")/.." || exit 2
export GOFLAGS=-mod=mod GOPROXY=off GOSUMDB=off GOTOOLCHAIN=local
go1.26.8 build -o check ./cmd/check || exit 2
rc=0
for p in $(python3 -c "import json;print(' '.join(c['property_id'] for c in json.load(open('MANIFEST.json'))['checks']))"); do
  ./check "$p" --tier "$tier" > "/tmp/regen-$p.log" 2>&1
  r=$?
  printf "%s exit=%s %s\n" "$p" "$r" "$(grep -E "^check $p tier" /tmp/regen-$p.log | tail -1 | cut -c1-150)"
  [ "$r" = "0" ] || rc=1
done
python3-vt - <<'PY'
import json, jsonschema, glob
ev = json.load(open('/root/.vp/EVIDENCE.schema.json'))
ok = True
for c in json.load(open('/verif/MANIFEST.json'))['checks']:
    f = c['evidence_file']
    try:
        jsonschema.validate(json.load(open(f)), ev)
    except Exception as e:
        ok = False; print("INVALID", f, str(e)[:200])
jsonschema.validate(json.load(open('/verif/MANIFEST.json')), json.load(open('/root/.vp/MANIFEST.schema.json')))
print("evidence and manifest valid" if ok else "evidence problems")
PY
exit $rc
