#!/bin/bash
# usage: detcmp.sh <test-binary> <prop> <runs> <reps> [gomaxprocs-list] - compares event-log hashes of <runs> runs over <reps> repetitions in separate processes (build the binary with ./check <ID> --keep)
B=$1; P=$2; N=$3; R=$4; G=${5:-1}
D=$(mktemp -d /tmp/detcmp-XXXX)
rep=0
for g in $G; do for r in $(seq 1 $R); do rep=$((rep+1)); for k in $(seq 0 15); do ( VERIF_PROP=$P VERIF_MODE=batch VERIF_TIER=quick VERIF_SEED=${VERIF_SEED:-1} VERIF_FROM=$k VERIF_TO=$N VERIF_STRIDE=16 VERIF_BUDGET_S=3600 VERIF_DET=1 VERIF_OUT=$D/out-$rep-$k.json VERIF_KNOWN=/verif/known_findings.json GOMAXPROCS=$g $B -test.run '^TestSim$' -test.timeout 0 >$D/log-$rep-$k 2>&1 ) & done; wait; done; done
python3 - $D <<'PY'
import re,glob,collections,sys
h=collections.defaultdict(set)
for f in glob.glob(sys.argv[1]+'/out-*.json'):
    s=open(f).read()
    m=re.search(r'"det_hashes":\{([^}]*)\}',s)
    if not m: print('no hashes in',f); continue
    for k,v in re.findall(r'"(\d+)":(\d+)',m.group(1)): h[int(k)].add(v)
bad=sorted(k for k,v in h.items() if len(v)>1)
print(len(h),'runs; divergent:',bad[:50], len(bad))
PY
grep -l "HARNESS\|panic" $D/log-* | head -3
rm -rf $D
