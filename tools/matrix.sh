#!/bin/bash
# Runs the quick check of the property a seeded change breaks against that change, in a scratch
# worktree of /repo (VERIF_REPO), never in /repo itself. One line per change goes to
# /verif/seeded/MATRIX.tsv (name, property, exit code, seconds, first violation clause).
#   tools/matrix.sh [name ...]          (default: every directory under /verif/seeded)
#   MATRIX_TIER=thorough MATRIX_BUDGET=120 tools/matrix.sh C11-shared-result-map
set -u
here=$(cd "$(dirname "$0")/.." && pwd)
seeded=/verif/seeded
tier=${MATRIX_TIER:-quick}
export GOFLAGS=-mod=mod GOPROXY=off GOSUMDB=off GOTOOLCHAIN=local
cd "$here" || exit 2
[ -x ./check ] || go1.26.8 build -o check ./cmd/check || exit 2
names=("$@")
if [ ${#names[@]} -eq 0 ]; then
  for n in $(ls "$seeded" | grep -E '^C[0-9]{2}-'); do
    grep -q '"status": "obsolete"' "$seeded/$n/meta.json" 2>/dev/null || names+=("$n")
  done
fi
mkdir -p /tmp/wt
for name in "${names[@]}"; do
  d=$seeded/$name
  prop=${name%%-*}
  [ -f "$d/meta.json" ] && prop=$(python3 -c "import json;print(json.load(open('$d/meta.json')).get('property','$prop'))")
  patch=$d/patch.diff
  [ -f "$d/patch.adapted.diff" ] && patch=$d/patch.adapted.diff
  wt=/tmp/wt/mx-$name
  git -C /repo worktree remove --force "$wt" >/dev/null 2>&1; rm -rf "$wt"
  git -C /repo worktree add -q --detach "$wt" HEAD || { echo "$name worktree failed"; continue; }
  if ! git -C "$wt" apply "$patch" 2>"$d/detect.log"; then
    printf "%s\t%s\tapply-failed\t0\t-\n" "$name" "$prop" | tee -a "$seeded/MATRIX.tsv"
    git -C /repo worktree remove --force "$wt" >/dev/null 2>&1; rm -rf "$wt"; continue
  fi
  t0=$(date +%s)
  extra=""
  [ -n "${MATRIX_BUDGET:-}" ] && extra="--budget $MATRIX_BUDGET"
  VERIF_REPO=$wt ./check "$prop" --tier "$tier" --no-evidence $extra >"$d/detect.log" 2>&1
  rc=$?
  t1=$(date +%s)
  clause=$(grep -m1 -A1 '^VIOLATION' "$d/detect.log" | grep -o 'clause=[^ ]*' | head -1)
  nclass=$(grep -c '^VIOLATION' "$d/detect.log")
  printf "%s\t%s\t%s\t%s\t%s\t%s\t%s\n" "$name" "$prop" "$rc" "$((t1-t0))" "${clause:--}" "$nclass" "$(git -C /verif rev-parse --short HEAD 2>/dev/null)" | tee -a "$seeded/MATRIX.tsv"
  # keep the log short: violations' first lines only
  grep -E '^(VIOLATION|KNOWN-FINDING|check |  clause=)' "$d/detect.log" > "$d/detect.summary" 2>/dev/null
  git -C /repo worktree remove --force "$wt" >/dev/null 2>&1; rm -rf "$wt"
  rm -f "$here"/evidence/replays/"$prop"-* 2>/dev/null
done
