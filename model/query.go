package model

import (
	"bytes"
	"fmt"
	"net/netip"
	"sort"
	"strings"

	"verif/sim"
)

// Cond is a condition AST. It is generated as a tree, rendered to the textual grammar of the
// help text, and evaluated independently with the documented semantics (C09): '&' intersection,
// '|' union, '!' complement, 'a != v' the complement of 'a = v', address and network equality only
// within one IP family, host/net sugar as documented.
type Cond struct {
	Op   string // "and", "or", "not", "cmp"
	L, R *Cond
	Attr string // sip dip snet dnet host net dport proto (and the aliases src dst port)
	Cmp  string // = != < > <= >=
	IP   []byte
	Bits int    // prefix length for networks
	Num  uint64 // dport / proto value
	Text string // rendered value
}

func canonAttr(a string) string {
	switch a {
	case "src":
		return "sip"
	case "dst":
		return "dip"
	case "port":
		return "dport"
	}
	return a
}

func prefixEq(a, b []byte, bits int) bool {
	if len(a) != len(b) {
		return false
	}
	full := bits / 8
	if !bytes.Equal(a[:full], b[:full]) {
		return false
	}
	if rem := bits % 8; rem != 0 {
		mask := byte(0xff << (8 - rem))
		return a[full]&mask == b[full]&mask
	}
	return true
}

// Eval evaluates the condition on a flow.
func (c *Cond) Eval(f Flow) bool {
	switch c.Op {
	case "and":
		return c.L.Eval(f) && c.R.Eval(f)
	case "or":
		return c.L.Eval(f) || c.R.Eval(f)
	case "not":
		return !c.L.Eval(f)
	}
	eq := func(addr []byte) bool { return len(addr) == len(c.IP) && bytes.Equal(addr, c.IP) }
	in := func(addr []byte) bool { return len(addr) == len(c.IP) && prefixEq(addr, c.IP, c.Bits) }
	var pos bool
	switch canonAttr(c.Attr) {
	case "sip":
		pos = eq(f.Sip)
	case "dip":
		pos = eq(f.Dip)
	case "host":
		pos = eq(f.Sip) || eq(f.Dip) // host != v is (sip != v & dip != v) = !(sip = v | dip = v)
	case "snet":
		pos = in(f.Sip)
	case "dnet":
		pos = in(f.Dip)
	case "net":
		pos = in(f.Sip) || in(f.Dip)
	case "dport", "proto":
		v := uint64(f.Dport)
		if canonAttr(c.Attr) == "proto" {
			v = uint64(f.Proto)
		}
		switch c.Cmp {
		case "=":
			return v == c.Num
		case "!=":
			return v != c.Num
		case "<":
			return v < c.Num
		case ">":
			return v > c.Num
		case "<=":
			return v <= c.Num
		default:
			return v >= c.Num
		}
	}
	if c.Cmp == "!=" {
		return !pos
	}
	return pos
}

// String renders the condition in the base syntax of the help text.
func (c *Cond) String() string {
	switch c.Op {
	case "and":
		return "(" + c.L.String() + " & " + c.R.String() + ")"
	case "or":
		return "(" + c.L.String() + " | " + c.R.String() + ")"
	case "not":
		return "!(" + c.L.String() + ")"
	}
	return fmt.Sprintf("%s %s %s", c.Attr, c.Cmp, c.Text)
}

// Families reports which address families appear as literals in the condition.
func (c *Cond) Families() (v4, v6 bool) {
	if c == nil {
		return
	}
	if c.Op != "cmp" {
		a, b := c.L.Families()
		var d, e bool
		if c.R != nil {
			d, e = c.R.Families()
		}
		return a || d, b || e
	}
	if c.IP != nil {
		return len(c.IP) == 4, len(c.IP) == 16
	}
	return
}

// HasNegation reports whether the condition contains '!' or '!=' or an 'or' (anything beyond a
// conjunction of positive clauses).
func (c *Cond) Shape() string {
	var has func(c *Cond, f func(*Cond) bool) bool
	has = func(c *Cond, f func(*Cond) bool) bool {
		if c == nil {
			return false
		}
		return f(c) || has(c.L, f) || has(c.R, f)
	}
	var tags []string
	if has(c, func(x *Cond) bool { return x.Op == "or" }) {
		tags = append(tags, "or")
	}
	if has(c, func(x *Cond) bool { return x.Op == "not" || (x.Op == "cmp" && x.Cmp == "!=") }) {
		tags = append(tags, "negation")
	}
	if has(c, func(x *Cond) bool { return x.Op == "cmp" && strings.HasSuffix(canonAttr(x.Attr), "net") }) {
		tags = append(tags, "network")
	}
	if len(tags) == 0 {
		return "conjunction of positive clauses"
	}
	return strings.Join(tags, "+")
}

var extraV4 = [][]byte{{10, 0, 0, 3}, {192, 168, 1, 0}, {1, 2, 3, 4}}
var extraV6 = [][]byte{mustV6("2001:db8::3"), mustV6("fe80::2")}
var protoNames = map[uint64]string{6: "TCP", 17: "UDP", 1: "ICMP"}

// GenCond draws a condition tree of at most the given depth. quirk enables literals whose
// bytes 4..15 are zero.
func GenCond(t *sim.Tape, depth int) *Cond {
	if depth > 0 {
		switch t.Draw(5) {
		case 0:
			return &Cond{Op: "and", L: GenCond(t, depth-1), R: GenCond(t, depth-1)}
		case 1:
			return &Cond{Op: "or", L: GenCond(t, depth-1), R: GenCond(t, depth-1)}
		case 2:
			return &Cond{Op: "not", L: GenCond(t, depth-1)}
		}
	}
	c := &Cond{Op: "cmp"}
	attrs := []string{"dport", "proto", "sip", "dip", "snet", "dnet", "host", "net", "src", "dst", "port"}
	c.Attr = attrs[t.Draw(len(attrs))]
	switch canonAttr(c.Attr) {
	case "dport":
		c.Cmp = []string{"=", "!=", "<", ">", "<=", ">="}[t.Draw(6)]
		base := uint64(sim.Pick(t, portPool))
		switch t.Draw(4) {
		case 0:
			if base > 0 {
				base--
			}
		case 1:
			if base < 65535 {
				base++
			}
		}
		c.Num, c.Text = base, fmt.Sprint(base)
	case "proto":
		c.Cmp = []string{"=", "!=", "<", ">", "<=", ">="}[t.Draw(6)]
		c.Num = uint64(sim.Pick(t, protoPool))
		c.Text = fmt.Sprint(c.Num)
		if n, ok := protoNames[c.Num]; ok && t.Draw(2) == 0 {
			c.Text = n
		}
	default:
		c.Cmp = []string{"=", "!="}[t.Draw(2)]
		var ip []byte
		if t.Draw(3) == 2 {
			pool := append(append([][]byte(nil), v6Pool...), extraV6...)
			ip = sim.Pick(t, pool)
		} else {
			pool := append(append([][]byte(nil), v4Pool...), extraV4...)
			ip = sim.Pick(t, pool)
		}
		c.IP = append([]byte(nil), ip...)
		a, _ := netip.AddrFromSlice(c.IP)
		if strings.HasSuffix(canonAttr(c.Attr), "net") {
			max := len(ip) * 8
			switch t.Draw(4) {
			case 0:
				c.Bits = max
			case 1:
				c.Bits = []int{8, 16, 24, 12, 25, 31}[t.Draw(6)]
				if len(ip) == 16 {
					c.Bits = []int{32, 48, 64, 10, 127, 33}[t.Draw(6)]
				}
			case 2:
				c.Bits = 0
			default:
				c.Bits = t.Draw(max + 1)
			}
			p := netip.PrefixFrom(a, c.Bits).Masked()
			if t.Draw(3) == 0 {
				// host bits set in the literal: the network is what matters
				c.Text = fmt.Sprintf("%s/%d", a, c.Bits)
			} else {
				c.Text = p.String()
			}
			m := p.Addr().AsSlice()
			c.IP = m
		} else {
			c.Text = a.String()
		}
	}
	return c
}

// Query is a modelled query.
type Query struct {
	Attrs     []string // subset of sip dip dport proto, in order
	Time      bool
	IfaceAttr bool
	Cond      *Cond
	First     int64
	Last      int64
	Dir       string // "", "in", "out", "uni", "bi"
	Ifaces    []string
}

// QueryType renders the attribute list.
func (q *Query) QueryType() string {
	a := append([]string(nil), q.Attrs...)
	if q.Time {
		a = append(a, "time")
	}
	if q.IfaceAttr {
		a = append(a, "iface")
	}
	return strings.Join(a, ",")
}

// CondString renders the full condition including the direction filter.
func (q *Query) CondString() string {
	var parts []string
	if q.Cond != nil {
		parts = append(parts, q.Cond.String())
	}
	if q.Dir != "" {
		parts = append(parts, "dir = "+q.Dir)
	}
	return strings.Join(parts, " & ")
}

// Row is a result row of the model.
type Row struct {
	TS    int64
	Iface string
	Sip   string
	Dip   string
	Dport uint16
	Proto byte
	C     Counters
}

func (r Row) String() string {
	return fmt.Sprintf("%d|%s|%s|%s|%d|%d|br=%d bs=%d pr=%d ps=%d", r.TS, r.Iface, r.Sip, r.Dip, r.Dport, r.Proto, r.C.BR, r.C.BS, r.C.PR, r.C.PS)
}

// Eval computes the expected rows (canonical strings, sorted), totals and the blocks in range.
// prune reproduces the one known deviation of the implementation (flows of the family that does
// not appear among the condition's address literals are dropped) and is only used to classify a
// mismatch as that known finding.
func (q *Query) Eval(s *Store, prune bool) (rows []string, totals Counters) {
	has := func(a string) bool {
		for _, x := range q.Attrs {
			if x == a {
				return true
			}
		}
		return false
	}
	v4lit, v6lit := q.Cond.Families()
	groups := map[string]*Row{}
	var order []string
	for _, iface := range q.Ifaces {
		for _, d := range s.Days(iface) {
			for _, b := range s.Ifaces[iface][d].Blocks {
				if b.TS < q.First || b.TS > q.Last {
					continue
				}
				for _, f := range b.Flows {
					if prune && v4lit != v6lit {
						if (v4lit && !f.V4) || (v6lit && f.V4) {
							continue
						}
					}
					if q.Cond != nil && !q.Cond.Eval(f) {
						continue
					}
					r := Row{Iface: iface, Sip: "-", Dip: "-"}
					if q.Time {
						r.TS = b.TS
					}
					if has("sip") {
						r.Sip = IPString(f.Sip)
					}
					if has("dip") {
						r.Dip = IPString(f.Dip)
					}
					if has("dport") {
						r.Dport = f.Dport
					}
					if has("proto") {
						r.Proto = f.Proto
					}
					k := fmt.Sprintf("%d|%s|%s|%s|%d|%d", r.TS, r.Iface, r.Sip, r.Dip, r.Dport, r.Proto)
					g := groups[k]
					if g == nil {
						g = &r
						groups[k] = g
						order = append(order, k)
					}
					g.C.Add(f.C)
				}
			}
		}
	}
	for _, k := range order {
		g := groups[k]
		keep := true
		switch q.Dir {
		case "in":
			keep = g.C.PR > 0 && g.C.PS == 0
		case "out":
			keep = g.C.PS > 0 && g.C.PR == 0
		case "uni":
			keep = (g.C.PR > 0) != (g.C.PS > 0)
		case "bi":
			keep = g.C.PR > 0 && g.C.PS > 0
		}
		if keep {
			rows = append(rows, g.String())
			totals.Add(g.C)
		}
	}
	sort.Strings(rows)
	return rows, totals
}

// GenQuery draws a query over the model store.
func GenQuery(t *sim.Tape, s *Store) *Query {
	q := &Query{}
	all := []string{"sip", "dip", "dport", "proto"}
	mask := t.Draw(16)
	if t.Draw(3) == 0 {
		mask = 15
	}
	for i, a := range all {
		if mask&(1<<i) != 0 {
			q.Attrs = append(q.Attrs, a)
		}
	}
	if len(q.Attrs) == 0 {
		q.Attrs = []string{all[t.Draw(4)]}
	}
	q.Time = t.Draw(2) == 1
	q.IfaceAttr = t.Draw(2) == 1
	if t.Draw(5) != 0 {
		q.Cond = GenCond(t, t.Draw(4))
	}
	if t.Draw(6) == 0 {
		q.Dir = []string{"in", "out", "uni", "bi"}[t.Draw(4)]
	}
	names := s.IfaceNames()
	if t.Draw(3) == 0 && len(names) > 1 {
		q.Ifaces = []string{names[t.Draw(len(names))]}
	} else {
		q.Ifaces = names
	}
	var stamps []int64
	for _, i := range names {
		for _, d := range s.Days(i) {
			for _, b := range s.Ifaces[i][d].Blocks {
				stamps = append(stamps, b.TS)
			}
		}
	}
	sort.Slice(stamps, func(i, j int) bool { return stamps[i] < stamps[j] })
	q.First, q.Last = 1, 4102444800
	if len(stamps) > 0 && t.Draw(3) != 0 {
		pick := func() int64 {
			s := stamps[t.Draw(len(stamps))]
			switch t.Draw(6) {
			case 0:
				return s
			case 1:
				return s - 1
			case 2:
				return s + 1
			case 3:
				return DayOf(s)
			case 4:
				return DayOf(s) + DaySeconds
			default:
				return s + 150
			}
		}
		a, b := pick(), pick()
		if a > b {
			a, b = b, a
		}
		if a < 1 {
			a = 1
		}
		q.First, q.Last = a, b
	}
	return q
}
