// Package model holds the reference models (oracles) shared by the simulation engines: the store
// model M_store (interfaces -> days -> ordered blocks of flows) and the query model M_query.
// They are written from the property statements and the documentation, not from the code.
package model

import (
	"bytes"
	"encoding/binary"
	"fmt"
	"net/netip"
	"sort"
	"strings"

	"github.com/els0r/goProbe/v4/pkg/types"
	"github.com/els0r/goProbe/v4/pkg/types/hashmap"
	"github.com/fako1024/gotools/bitpack"

	"verif/sim"
)

// DaySeconds is the length of a day directory.
const DaySeconds = 86400

// Counters are the four traffic counters of a flow.
type Counters struct{ BR, BS, PR, PS uint64 }

// Add sums counters.
func (c *Counters) Add(o Counters) { c.BR += o.BR; c.BS += o.BS; c.PR += o.PR; c.PS += o.PS }

// Flow is one stored flow record.
type Flow struct {
	V4       bool
	Sip, Dip []byte
	Dport    uint16
	Proto    byte
	C        Counters
}

// IPString renders raw address bytes.
func IPString(b []byte) string {
	a, ok := netip.AddrFromSlice(b)
	if !ok {
		return fmt.Sprintf("bad-ip-%x", b)
	}
	return a.String()
}

// KeyString is the canonical identity of a flow (without counters).
func (f Flow) KeyString() string {
	return fmt.Sprintf("%x>%x:%d/%d", f.Sip, f.Dip, f.Dport, f.Proto)
}

func (f Flow) String() string {
	s, _ := netip.AddrFromSlice(f.Sip)
	d, _ := netip.AddrFromSlice(f.Dip)
	return fmt.Sprintf("%s>%s:%d/%d {br=%d bs=%d pr=%d ps=%d}", s, d, f.Dport, f.Proto, f.C.BR, f.C.BS, f.C.PR, f.C.PS)
}

// Traffic is the per-block traffic summary.
type Traffic struct{ V4, V6, Drops uint64 }

// Block is one written block.
type Block struct {
	TS      int64
	Flows   []Flow     // flow-level content (nil for raw-level blocks)
	Raw     *[8][]byte // raw-level column payloads (nil for flow-level blocks)
	Traffic Traffic    // as handed to the writer
	Counts  Counters   // as handed to the writer
	Enc     string     // encoder used by the write session (informational)
}

// Day is the ordered list of blocks of one (iface, day).
type Day struct{ Blocks []Block }

// Totals sums traffic and counters over the blocks.
func (d *Day) Totals() (Traffic, Counters) {
	var t Traffic
	var c Counters
	for _, b := range d.Blocks {
		t.V4 += b.Traffic.V4
		t.V6 += b.Traffic.V6
		t.Drops += b.Traffic.Drops
		c.Add(b.Counts)
	}
	return t, c
}

// Store is M_store.
type Store struct {
	Ifaces map[string]map[int64]*Day
}

// NewStore returns an empty model.
func NewStore() *Store { return &Store{Ifaces: map[string]map[int64]*Day{}} }

// DayOf returns the day timestamp of ts.
func DayOf(ts int64) int64 { return ts / DaySeconds * DaySeconds }

// Add appends a block.
func (s *Store) Add(iface string, b Block) {
	m := s.Ifaces[iface]
	if m == nil {
		m = map[int64]*Day{}
		s.Ifaces[iface] = m
	}
	d := m[DayOf(b.TS)]
	if d == nil {
		d = &Day{}
		m[DayOf(b.TS)] = d
	}
	d.Blocks = append(d.Blocks, b)
}

// Clone deep-copies the model (blocks are immutable and shared).
func (s *Store) Clone() *Store {
	c := NewStore()
	for i, m := range s.Ifaces {
		c.Ifaces[i] = map[int64]*Day{}
		for d, day := range m {
			c.Ifaces[i][d] = &Day{Blocks: append([]Block(nil), day.Blocks...)}
		}
	}
	return c
}

// IfaceNames returns the sorted interface names.
func (s *Store) IfaceNames() []string {
	var out []string
	for k := range s.Ifaces {
		out = append(out, k)
	}
	sort.Strings(out)
	return out
}

// Days returns the sorted day timestamps of an interface.
func (s *Store) Days(iface string) []int64 {
	var out []int64
	for k := range s.Ifaces[iface] {
		out = append(out, k)
	}
	sort.Slice(out, func(i, j int) bool { return out[i] < out[j] })
	return out
}

// ---- generation ----

var v4Pool = [][]byte{
	{10, 0, 0, 1}, {10, 0, 0, 2}, {10, 0, 1, 1}, {192, 168, 1, 1}, {192, 168, 1, 200}, {8, 8, 8, 8}, {0, 0, 0, 0}, {255, 255, 255, 255}, {172, 16, 5, 9},
}

var v6Pool = [][]byte{
	mustV6("2001:db8::1"), mustV6("2001:db8::2"), mustV6("2001:db8:1::1"), mustV6("fe80::1"), mustV6("::1"), mustV6("ff02::fb"),
	mustV6("2a00:1450:4001:81b::200e"),
}

// V6Quirk are IPv6 addresses whose bytes 4..15 are zero: goProbe's result rendering
// (types.RawIPToAddr) shows them as IPv4 addresses. They are only generated where a check opts in.
var V6Quirk = [][]byte{mustV6("::"), mustV6("2001:db8::")}

func mustV6(s string) []byte {
	a := netip.MustParseAddr(s).As16()
	return a[:]
}

var portPool = []uint16{80, 443, 53, 0, 22, 8080, 65535, 1, 32768, 123}
var protoPool = []byte{6, 17, 1, 58, 50, 0, 255, 47}

// GenCounter draws a counter biased to small values with occasional huge ones.
func GenCounter(t *sim.Tape) uint64 {
	switch t.Draw(8) {
	case 0:
		return 0
	case 1, 2, 3:
		return uint64(t.Draw(200))
	case 4, 5:
		return uint64(t.Draw(1 << 20))
	case 6:
		return uint64(t.Draw(1<<31)) << uint(t.Draw(20))
	default:
		return t.Uint64() >> uint(t.Draw(40))
	}
}

// GenFlow draws a flow.
func GenFlow(t *sim.Tape, allowV6 bool) Flow {
	f := Flow{V4: true}
	if allowV6 && t.Draw(3) == 2 {
		f.V4 = false
	}
	if f.V4 {
		f.Sip = sim.Pick(t, v4Pool)
		f.Dip = sim.Pick(t, v4Pool)
	} else {
		f.Sip = sim.Pick(t, v6Pool)
		f.Dip = sim.Pick(t, v6Pool)
	}
	f.Dport = sim.Pick(t, portPool)
	f.Proto = sim.Pick(t, protoPool)
	f.C = Counters{GenCounter(t), GenCounter(t), GenCounter(t), GenCounter(t)}
	return f
}

// GenFlows draws up to max flows with unique keys.
func GenFlows(t *sim.Tape, max int, allowV6 bool) []Flow {
	n := t.Draw(max + 1)
	seen := map[string]bool{}
	var out []Flow
	for i := 0; i < n; i++ {
		f := GenFlow(t, allowV6)
		if seen[f.KeyString()] {
			continue
		}
		seen[f.KeyString()] = true
		out = append(out, f)
	}
	return out
}

// FlowBlock builds a flow-level block (traffic/counters derived as the writer derives them).
func FlowBlock(ts int64, flows []Flow, drops uint64) Block {
	b := Block{TS: ts, Flows: flows}
	for _, f := range flows {
		if f.V4 {
			b.Traffic.V4++
		} else {
			b.Traffic.V6++
		}
		b.Counts.Add(f.C)
	}
	b.Traffic.Drops = drops
	return b
}

// ToAggFlowMap builds the hash map the capture hands to the DB writer.
func ToAggFlowMap(flows []Flow) *hashmap.AggFlowMap {
	m := hashmap.NewAggFlowMap()
	for _, f := range flows {
		var dp [2]byte
		binary.BigEndian.PutUint16(dp[:], f.Dport)
		k := types.NewKey(f.Sip, f.Dip, dp[:], f.Proto)
		m.SetOrUpdate(k, f.V4, f.C.BR, f.C.BS, f.C.PR, f.C.PS)
	}
	return m
}

// DecodeColumns decodes the eight column payloads of a flow-level block (independent reading of
// the documented column format: v4 flows first, then v6; addresses 4/16 bytes, proto 1 byte,
// dport 2 bytes big endian, counters bit-packed).
func DecodeColumns(cols [8][]byte, nV4, nV6 uint64) ([]Flow, error) {
	n := int(nV4 + nV6)
	want := int(nV4)*4 + int(nV6)*16
	if len(cols[types.SIPColIdx]) != want || len(cols[types.DIPColIdx]) != want {
		return nil, fmt.Errorf("address columns have %d/%d bytes, want %d (v4=%d v6=%d)", len(cols[types.SIPColIdx]), len(cols[types.DIPColIdx]), want, nV4, nV6)
	}
	if len(cols[types.ProtoColIdx]) != n || len(cols[types.DportColIdx]) != 2*n {
		return nil, fmt.Errorf("proto/dport columns have %d/%d bytes for %d flows", len(cols[types.ProtoColIdx]), len(cols[types.DportColIdx]), n)
	}
	var cnt [4][]uint64
	for i, ci := range []types.ColumnIndex{types.BytesRcvdColIdx, types.BytesSentColIdx, types.PacketsRcvdColIdx, types.PacketsSentColIdx} {
		cnt[i] = bitpack.Unpack(cols[ci])
		if len(cnt[i]) != n {
			return nil, fmt.Errorf("counter column %d has %d entries, want %d", ci, len(cnt[i]), n)
		}
	}
	out := make([]Flow, n)
	off := 0
	for i := 0; i < n; i++ {
		w := 4
		if i >= int(nV4) {
			w = 16
		}
		f := Flow{V4: w == 4}
		f.Sip = append([]byte(nil), cols[types.SIPColIdx][off:off+w]...)
		f.Dip = append([]byte(nil), cols[types.DIPColIdx][off:off+w]...)
		off += w
		f.Proto = cols[types.ProtoColIdx][i]
		f.Dport = binary.BigEndian.Uint16(cols[types.DportColIdx][2*i:])
		f.C = Counters{cnt[0][i], cnt[1][i], cnt[2][i], cnt[3][i]}
		out[i] = f
	}
	return out, nil
}

// CanonFlows renders a multiset of flows canonically.
func CanonFlows(fs []Flow) string {
	ss := make([]string, len(fs))
	for i, f := range fs {
		ss[i] = f.String()
	}
	sort.Strings(ss)
	return strings.Join(ss, "\n")
}

// SameRaw compares column payloads.
func SameRaw(a, b [8][]byte) (int, bool) {
	for i := range a {
		if !bytes.Equal(a[i], b[i]) {
			return i, false
		}
	}
	return -1, true
}

// Touch makes a day exist without adding a block (a write session that wrote nothing).
func (s *Store) Touch(iface string, day int64) {
	m := s.Ifaces[iface]
	if m == nil {
		m = map[int64]*Day{}
		s.Ifaces[iface] = m
	}
	if m[day] == nil {
		m[day] = &Day{}
	}
}

// AddTo appends a block to an explicitly named day directory (raw-level writers choose the
// directory independently of the block timestamp).
func (s *Store) AddTo(iface string, day int64, b Block) {
	m := s.Ifaces[iface]
	if m == nil {
		m = map[int64]*Day{}
		s.Ifaces[iface] = m
	}
	d := m[day]
	if d == nil {
		d = &Day{}
		m[day] = d
	}
	d.Blocks = append(d.Blocks, b)
}
