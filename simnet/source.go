// Package simnet holds the stubs for goProbe's network environment: the packet source behind
// capture.Source (no AF_PACKET ring, no BPF) and the HTTP transport behind the distributed query
// client.
package simnet

import (
	"sync"

	"github.com/fako1024/gotools/link"
	"github.com/fako1024/slimcap/capture"
)

// Packet is one packet as the capture source delivers it: the IP layer bytes (truncated to the
// capture length), the packet type (direction) and the total length on the wire.
type Packet struct {
	IP   []byte
	Type byte
	Size uint32
	Tag  int // harness bookkeeping
}

// Source implements slimcap's capture.SourceZeroCopy on a queue fed by the simulation.
//
// Semantics taken from the real ring source: Next blocks until a packet, an unblock signal or a
// close arrives; the unblock signal is sticky (an Unblock that arrives before Next blocks is not
// lost, as with the eventfd of the real ring); Stats returns and clears the counters.
type Source struct {
	Iface string
	// Yield is the scheduling seam: called at the start of every interaction.
	Yield func(what string)

	mu                   sync.Mutex
	q                    []Packet
	unblock              bool
	closed               bool
	wake                 chan struct{}
	recv                 uint64
	dropped              uint64
	Consumed             []Packet // packets handed to the capture, in order
	InWindow, InWindowV6 int      // packets consumed between a lock request and its unlock request
	// WindowBytes: per lock cycle (from one unlock request to the next), the bytes the packets
	// consumed in it would occupy in the local buffer (endpoint hash + 8 bytes per element)
	WindowBytes []int
	NextCalls   int
	Unblocks    int
	Closed      bool
}

// NewSource creates a source.
func NewSource(iface string, yield func(what string)) *Source {
	return &Source{Iface: iface, Yield: yield, wake: make(chan struct{})}
}

func (s *Source) signal() {
	close(s.wake)
	s.wake = make(chan struct{})
}

// Inject puts a packet on the wire.
func (s *Source) Inject(p Packet) {
	s.mu.Lock()
	s.q = append(s.q, p)
	s.signal()
	s.mu.Unlock()
}

// AddDrops makes the next Stats call report kernel drops.
func (s *Source) AddDrops(n uint64) {
	s.mu.Lock()
	s.dropped += n
	s.mu.Unlock()
}

// Pending returns the number of packets not yet consumed.
func (s *Source) Pending() int {
	s.mu.Lock()
	defer s.mu.Unlock()
	return len(s.q)
}

// NextIPPacketZeroCopy implements capture.SourceZeroCopy.
func (s *Source) NextIPPacketZeroCopy() (capture.IPLayer, capture.PacketType, uint32, error) {
	if s.Yield != nil {
		s.Yield("next-packet " + s.Iface)
	}
	for {
		s.mu.Lock()
		s.NextCalls++
		switch {
		case s.closed:
			s.mu.Unlock()
			return nil, 0, 0, capture.ErrCaptureStopped
		case s.unblock:
			s.unblock = false
			s.mu.Unlock()
			return nil, 0, 0, capture.ErrCaptureUnblocked
		case len(s.q) > 0:
			p := s.q[0]
			s.q = s.q[1:]
			s.recv++
			s.Consumed = append(s.Consumed, p)
			// cycle accounting: everything consumed since the previous unlock request belongs to the
			// current lock cycle (an upper bound of what the pause window of that cycle can have
			// buffered: the window may open before the locker has signalled the source)
			for len(s.WindowBytes) <= s.Unblocks/2 {
				s.WindowBytes = append(s.WindowBytes, 0)
			}
			elem := 13 + 8
			if len(p.IP) > 0 && p.IP[0]>>4 == 6 {
				elem = 37 + 8
			}
			s.WindowBytes[s.Unblocks/2] += elem
			if s.Unblocks%2 == 1 { // between a lock request and the matching unlock request
				s.InWindow++
				if len(p.IP) > 0 && p.IP[0]>>4 == 6 {
					s.InWindowV6++
				}
			}
			s.mu.Unlock()
			return capture.IPLayer(p.IP), p.Type, p.Size, nil
		}
		ch := s.wake
		s.mu.Unlock()
		<-ch // durably blocked until a packet, an unblock or a close arrives
	}
}

// Unblock implements capture.Source.
func (s *Source) Unblock() error {
	if s.Yield != nil {
		s.Yield("unblock " + s.Iface)
	}
	s.mu.Lock()
	s.unblock = true
	s.Unblocks++
	s.signal()
	s.mu.Unlock()
	return nil
}

// Stats implements capture.Source (returns and clears the counters).
func (s *Source) Stats() (capture.Stats, error) {
	if s.Yield != nil {
		s.Yield("stats " + s.Iface)
	}
	s.mu.Lock()
	defer s.mu.Unlock()
	st := capture.Stats{PacketsReceived: s.recv, PacketsDropped: s.dropped}
	s.recv, s.dropped = 0, 0
	return st, nil
}

// Close implements capture.Source.
func (s *Source) Close() error {
	if s.Yield != nil {
		s.Yield("close " + s.Iface)
	}
	s.mu.Lock()
	s.closed = true
	s.Closed = true
	s.signal()
	s.mu.Unlock()
	return nil
}

// Link implements capture.Source.
func (s *Source) Link() *link.Link { return &link.Link{Name: s.Iface} }

// The remaining methods of the interface are not used by goProbe.

func notModelled() { panic("simnet.Source: method not modelled") }

// NewPacket is not modelled.
func (s *Source) NewPacket() capture.Packet { notModelled(); return nil }

// NextPacket is not modelled.
func (s *Source) NextPacket(capture.Packet) (capture.Packet, error) { notModelled(); return nil, nil }

// NextPayload is not modelled.
func (s *Source) NextPayload([]byte) ([]byte, byte, uint32, error) {
	notModelled()
	return nil, 0, 0, nil
}

// NextIPPacket is not modelled.
func (s *Source) NextIPPacket(capture.IPLayer) (capture.IPLayer, capture.PacketType, uint32, error) {
	notModelled()
	return nil, 0, 0, nil
}

// NextPacketFn is not modelled.
func (s *Source) NextPacketFn(func([]byte, uint32, capture.PacketType, byte) error) error {
	notModelled()
	return nil
}

// NextPayloadZeroCopy is not modelled.
func (s *Source) NextPayloadZeroCopy() ([]byte, capture.PacketType, uint32, error) {
	notModelled()
	return nil, 0, 0, nil
}
