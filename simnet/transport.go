package simnet

import (
	"bytes"
	"context"
	"errors"
	"fmt"
	"io"
	"net/http"
	"sync"
	"time"
)

// Attempt describes how a simulated host treats one HTTP request attempt.
type Attempt struct {
	Kind  string        // "ok", "connerr", "status", "hang", "garbage", "cutbody"
	Code  int           // for "status"
	Delay time.Duration // simulated processing / network time before the reply
}

// HostScript is the behaviour of one simulated goProbe API host.
type HostScript struct {
	Body     []byte    // JSON body returned by a successful attempt
	Attempts []Attempt // per attempt; the last entry repeats
	Seen     int       // attempts received so far
}

// Transport is the simulated network between global-query and the goProbe hosts: an
// http.RoundTripper that answers from per-host scripts, with every request and reply a scheduling
// point and all delays on the simulated clock. The servers' own engine is not run behind it.
type Transport struct {
	mu    sync.Mutex
	Hosts map[string]*HostScript
	Yield func(what string)
	Log   []string
	// InFlight counts requests that have been received and not yet answered.
	InFlight, MaxInFlight int
}

// SetYield replaces the scheduling seam (nil: requests are answered without scheduling points).
func (t *Transport) SetYield(y func(string)) {
	t.mu.Lock()
	t.Yield = y
	t.mu.Unlock()
}

// NewTransport creates a transport.
func NewTransport(yield func(string)) *Transport {
	return &Transport{Hosts: map[string]*HostScript{}, Yield: yield}
}

// expired is the seam after a request was given up by the client (time-out or cancellation): requests
// that started at the same simulated instant time out at the same instant, their goroutines wake
// together, and what they do next (hand their result to the fan-in channel, fetch the next workload)
// depends on their order. Parking them here lets the scheduler, not the Go runtime, decide it.
func (t *Transport) expired(yield func(string), host string, n int) {
	if yield != nil {
		yield(fmt.Sprintf("expired %s attempt %d", host, n))
	}
}

// RoundTrip implements http.RoundTripper.
func (t *Transport) RoundTrip(req *http.Request) (*http.Response, error) {
	host := req.URL.Hostname()
	// like the real transport, a request whose context is already over fails before anything is sent.
	// (It also keeps schedules replayable: after a cancellation goProbe's pipeline runners choose
	// between "context done" and "next workload" in a select with both cases ready, which the Go
	// runtime resolves at random; the extra requests this produces never reach a seam.)
	if err := req.Context().Err(); err != nil {
		if errors.Is(err, context.DeadlineExceeded) {
			// a retry after the request time-out: goProbe's client keeps sleeping through its back-off
			// intervals and retries with the expired context. Requests that timed out together wake
			// together from every one of these sleeps, so each of them is a seam as well.
			t.mu.Lock()
			yield := t.Yield
			t.mu.Unlock()
			if yield != nil {
				yield(fmt.Sprintf("request %s after its time-out", host))
			}
		}
		return nil, err
	}
	if req.Body != nil {
		_, _ = io.Copy(io.Discard, req.Body)
		_ = req.Body.Close()
	}
	t.mu.Lock()
	hs := t.Hosts[host]
	if hs == nil {
		t.mu.Unlock()
		return nil, fmt.Errorf("dial tcp: lookup %s: no such host", host)
	}
	n := hs.Seen
	hs.Seen++
	a := hs.Attempts[len(hs.Attempts)-1]
	if n < len(hs.Attempts) {
		a = hs.Attempts[n]
	}
	t.InFlight++
	if t.InFlight > t.MaxInFlight {
		t.MaxInFlight = t.InFlight
	}
	yield := t.Yield
	t.mu.Unlock()
	defer func() {
		t.mu.Lock()
		t.InFlight--
		t.mu.Unlock()
	}()
	if yield != nil {
		yield(fmt.Sprintf("request %s attempt %d", host, n))
	}
	if a.Delay > 0 {
		select {
		case <-time.After(a.Delay):
		case <-req.Context().Done():
			t.expired(yield, host, n)
			return nil, req.Context().Err()
		}
	}
	if yield != nil {
		yield(fmt.Sprintf("reply %s attempt %d (%s)", host, n, a.Kind))
	}
	switch a.Kind {
	case "connerr":
		return nil, errors.New("dial tcp: connection refused")
	case "hang":
		<-req.Context().Done() // partition: nothing comes back until the request times out
		t.expired(yield, host, n)
		return nil, req.Context().Err()
	case "status":
		return &http.Response{StatusCode: a.Code, Status: http.StatusText(a.Code), Header: http.Header{"Content-Type": {"application/json"}},
			Body: io.NopCloser(bytes.NewReader([]byte(`{"title":"` + http.StatusText(a.Code) + `","status":` + fmt.Sprint(a.Code) + `}`))), Request: req}, nil
	case "cutbody":
		half := hs.Body[:len(hs.Body)/2]
		return &http.Response{StatusCode: 200, Status: "OK", Header: http.Header{"Content-Type": {"application/json"}},
			Body: io.NopCloser(io.MultiReader(bytes.NewReader(half), errReader{})), ContentLength: int64(len(hs.Body)), Request: req}, nil
	case "garbage":
		return &http.Response{StatusCode: 200, Status: "OK", Header: http.Header{"Content-Type": {"application/json"}},
			Body: io.NopCloser(bytes.NewReader([]byte(`{"rows": [ {"counters": `))), Request: req}, nil
	}
	return &http.Response{StatusCode: 200, Status: "OK", Header: http.Header{"Content-Type": {"application/json"}},
		Body: io.NopCloser(bytes.NewReader(hs.Body)), ContentLength: int64(len(hs.Body)), Request: req}, nil
}

// errReader fails like a connection that is reset while the body is being read.
type errReader struct{}

func (errReader) Read([]byte) (int, error) { return 0, io.ErrUnexpectedEOF }
