// Command check is the driver of all checks: it rewrites the current /repo tree into an overlay
// (file-system and mutex seams), builds the engine's harness binary with the verif tag, runs
// worker processes over disjoint seed ranges, minimises and re-verifies violations in a fresh
// process, matches known findings and writes the evidence file.
//
//	./check <ID> [--tier quick|thorough] [--seed N] [--replay FILE] [--mutant FILE] [--workers N]
//	./check selftest [--tier quick|thorough]
//
// Exit codes: 0 property held on everything explored (KNOWN-FINDING lines possible); 1 with a
// line "VIOLATION property=<id> replay=<path>"; 2 machinery failure (never phrased as a violation).
package main

import (
	"bytes"
	"encoding/json"
	"flag"
	"fmt"
	"os"
	"os/exec"
	"path/filepath"
	"sort"
	"strconv"
	"strings"
	"sync"
	"time"

	"verif/h"
	"verif/rewrite"
)

// repo is the tree the checks are built from. It is /repo for every registered command; the
// diagnostic variable VERIF_REPO points the driver at a scratch worktree instead (used to try the
// checks on seeded changes without touching /repo; such runs never write evidence).
var repo = envOr("VERIF_REPO", "/repo")

var fsPkgs = []string{"pkg/goDB/storage/gpfile", "pkg/goDB", "pkg/goDB/info", "cmd/gpdb/pkg/csvimport"}
var syncPkgs = []string{"pkg/capture", "pkg/goprobe/writeout"}

type engine struct {
	Name string
	Pkg  string // harness package
	Kind string
	Sync bool // rewrite sync.Mutex in capture packages
	// SingleP runs the worker processes with GOMAXPROCS=1: after a channel hand-over inside goProbe
	// (three-point lock confirmation, semaphore release) two goroutines are runnable at once and
	// race to their next seam; with one P the Go scheduler resolves that the same way every time
	SingleP bool
	Props   []string
}

var engines = []engine{
	{Name: "store-sim", Pkg: "./harness/store", Kind: "real storage/writer/reader/query code over simulated disk; histories, restarts, kills, I/O errors", Props: []string{"C01", "C02", "C03", "C04", "C05", "C12", "C26"}},
	{Name: "query-sim", Pkg: "./harness/query", Kind: "real query engine over a database written by the real writer; worker count, memory mode, goroutine schedule and reader/writer interleaving decided by the simulator", Props: []string{"C06", "C08", "C11", "C30", "C31"}},
	{Name: "capture-sim", Pkg: "./harness/capture", Sync: true, SingleP: true, Kind: "real capture manager with simulated packet sources, fake clock, simulated disk and seeded scheduler at every seam (source calls, mutexes, file-system operations)", Props: []string{"C20", "C21", "C22", "C23", "C27", "C29"}},
	{Name: "dist-sim", Pkg: "./harness/dist", SingleP: true, Kind: "real distributed query runner, API client querier and HTTP client stack over a simulated transport and clock; reply order, delays, losses, errors and partitions decided by the simulator", Props: []string{"C15", "C31"}},
	{Name: "stream-sim", Pkg: "./harness/enc", Kind: "real compressor implementations (cgo and pure-Go back ends in one binary) driven as stateful stream code with dirty scratch buffers and fault-injecting writers/readers", Props: []string{"C07", "C02"}},
	{Name: "merge-sim", Pkg: "./harness/merge", Kind: "real MergeDatabases over a read-only source disk and a destination disk; generated database pairs; kills at every mutating operation", Props: []string{"C24", "C25"}},
}

type tierCfg struct {
	Runs    int // upper bound of run indexes
	BudgetS int // wall budget per worker
	MinS    int // minimisation budget
}

type propCfg struct {
	Level    string
	Quick    tierCfg
	Thorough tierCfg
}

var propCfgs = map[string]propCfg{
	"C04": {Level: "fault_enumeration", Quick: tierCfg{Runs: 96, BudgetS: 35, MinS: 30}, Thorough: tierCfg{Runs: 4000, BudgetS: 600, MinS: 120}},
	"C01": {Level: "exploration", Quick: tierCfg{Runs: 4000, BudgetS: 35, MinS: 30}, Thorough: tierCfg{Runs: 400000, BudgetS: 600, MinS: 120}},
	"C03": {Level: "exploration", Quick: tierCfg{Runs: 4000, BudgetS: 35, MinS: 30}, Thorough: tierCfg{Runs: 400000, BudgetS: 600, MinS: 120}},
	"C12": {Level: "exploration", Quick: tierCfg{Runs: 4000, BudgetS: 35, MinS: 30}, Thorough: tierCfg{Runs: 400000, BudgetS: 600, MinS: 120}},
	"C24": {Level: "exploration", Quick: tierCfg{Runs: 4000, BudgetS: 35, MinS: 30}, Thorough: tierCfg{Runs: 400000, BudgetS: 600, MinS: 120}},
	"C25": {Level: "fault_enumeration", Quick: tierCfg{Runs: 4000, BudgetS: 35, MinS: 30}, Thorough: tierCfg{Runs: 400000, BudgetS: 600, MinS: 120}},
	"C26": {Level: "exploration", Quick: tierCfg{Runs: 4000, BudgetS: 35, MinS: 30}, Thorough: tierCfg{Runs: 400000, BudgetS: 600, MinS: 120}},
	"C08": {Level: "exploration", Quick: tierCfg{Runs: 4000, BudgetS: 35, MinS: 30}, Thorough: tierCfg{Runs: 400000, BudgetS: 600, MinS: 120}},
	"C11": {Level: "exploration", Quick: tierCfg{Runs: 4000, BudgetS: 40, MinS: 30}, Thorough: tierCfg{Runs: 400000, BudgetS: 600, MinS: 120}},
	"C30": {Level: "exploration", Quick: tierCfg{Runs: 400000, BudgetS: 40, MinS: 30}, Thorough: tierCfg{Runs: 4000000, BudgetS: 600, MinS: 120}},
	"C06": {Level: "exploration", Quick: tierCfg{Runs: 400000, BudgetS: 40, MinS: 30}, Thorough: tierCfg{Runs: 4000000, BudgetS: 600, MinS: 120}},
	"C31": {Level: "exploration", Quick: tierCfg{Runs: 400000, BudgetS: 40, MinS: 30}, Thorough: tierCfg{Runs: 4000000, BudgetS: 600, MinS: 120}},
	"C20": {Level: "exploration", Quick: tierCfg{Runs: 400000, BudgetS: 40, MinS: 30}, Thorough: tierCfg{Runs: 4000000, BudgetS: 600, MinS: 120}},
	"C21": {Level: "exploration", Quick: tierCfg{Runs: 400000, BudgetS: 40, MinS: 30}, Thorough: tierCfg{Runs: 4000000, BudgetS: 600, MinS: 120}},
	"C23": {Level: "exploration", Quick: tierCfg{Runs: 400000, BudgetS: 40, MinS: 30}, Thorough: tierCfg{Runs: 4000000, BudgetS: 600, MinS: 120}},
	"C22": {Level: "exploration", Quick: tierCfg{Runs: 400000, BudgetS: 35, MinS: 30}, Thorough: tierCfg{Runs: 4000000, BudgetS: 600, MinS: 120}},
	"C27": {Level: "exploration", Quick: tierCfg{Runs: 400000, BudgetS: 40, MinS: 30}, Thorough: tierCfg{Runs: 4000000, BudgetS: 600, MinS: 120}},
	"C29": {Level: "exploration", Quick: tierCfg{Runs: 400000, BudgetS: 40, MinS: 30}, Thorough: tierCfg{Runs: 4000000, BudgetS: 600, MinS: 120}},
	"C15": {Level: "exploration", Quick: tierCfg{Runs: 400000, BudgetS: 40, MinS: 30}, Thorough: tierCfg{Runs: 4000000, BudgetS: 600, MinS: 120}},
	"C07": {Level: "exploration", Quick: tierCfg{Runs: 400000, BudgetS: 35, MinS: 30}, Thorough: tierCfg{Runs: 40000000, BudgetS: 600, MinS: 120}},
	"C02": {Level: "exploration", Quick: tierCfg{Runs: 4000, BudgetS: 35, MinS: 30}, Thorough: tierCfg{Runs: 400000, BudgetS: 600, MinS: 120}},
	"C05": {Level: "fault_enumeration", Quick: tierCfg{Runs: 96, BudgetS: 35, MinS: 30}, Thorough: tierCfg{Runs: 4000, BudgetS: 600, MinS: 120}},
}

func engineOf(id string) *engine {
	if es := enginesOf(id); len(es) > 0 {
		return es[0]
	}
	return nil
}

// enginesOf returns every engine that serves the property (C31 has an engine and a distributed variant).
func enginesOf(id string) []*engine {
	var out []*engine
	for i := range engines {
		for _, p := range engines[i].Props {
			if p == id {
				out = append(out, &engines[i])
			}
		}
	}
	return out
}

func die(format string, a ...any) {
	fmt.Fprintf(os.Stderr, "check: "+format+"\n", a...)
	os.Exit(2)
}

func goEnv() []string {
	env := os.Environ()
	env = append(env, "GOFLAGS=-mod=mod", "GOPROXY=off", "GOSUMDB=off", "GOTOOLCHAIN=local", "CGO_ENABLED=1")
	return env
}

func goBin() string {
	if v := os.Getenv("VERIF_GO"); v != "" {
		return v
	}
	return "go1.26.8"
}

type mutant struct {
	Name    string                 `json:"name"`
	Patches map[string][][2]string `json:"patches"`
}

func main() {
	if len(os.Args) < 2 {
		die("usage: check <ID|selftest> [flags]")
	}
	id := os.Args[1]
	fs := flag.NewFlagSet("check", flag.ExitOnError)
	tier := fs.String("tier", envOr("VERIF_TIER", "quick"), "quick|thorough")
	seedFlag := fs.Int64("seed", envInt("VERIF_SEED", 20260921), "batch seed")
	replay := fs.String("replay", "", "replay file")
	mutantFile := fs.String("mutant", "", "sensitivity mutant (JSON patch list applied through the overlay)")
	workers := fs.Int("workers", int(envInt("VERIF_WORKERS", 16)), "worker processes")
	runs := fs.Int("runs", 0, "override number of runs")
	budget := fs.Int("budget", 0, "override per-worker wall budget (s)")
	noEvidence := fs.Bool("no-evidence", false, "do not write the evidence file")
	keep := fs.Bool("keep", false, "keep the scratch directory")
	race := fs.Bool("race", false, "diagnostic: build the harness with the race detector (reports of races in harness or goProbe code end the run with exit 2 and the report; never a violation)")
	_ = fs.Parse(os.Args[2:])
	verifDir, _ := os.Getwd()
	if _, err := os.Stat(filepath.Join(verifDir, "MANIFEST.json")); err != nil {
		exe, _ := os.Executable()
		verifDir = filepath.Dir(exe)
	}
	if id == "selftest" {
		os.Exit(selftest(verifDir, *tier, *seedFlag))
	}
	eng := engineOf(id)
	if eng == nil {
		die("unknown property %s", id)
	}
	cfg := propCfgs[id]
	tc := cfg.Quick
	if *tier == "thorough" {
		tc = cfg.Thorough
	}
	if *runs > 0 {
		tc.Runs = *runs
	}
	if *budget > 0 {
		tc.BudgetS = *budget
	}
	start := time.Now()
	scratch, err := os.MkdirTemp("", "verif-"+id+"-")
	if err != nil {
		die("scratch: %v", err)
	}
	if !*keep {
		defer os.RemoveAll(scratch)
	}
	var mut *mutant
	if *mutantFile != "" {
		b, err := os.ReadFile(*mutantFile)
		if err != nil {
			die("mutant: %v", err)
		}
		mut = &mutant{}
		if err := json.Unmarshal(b, mut); err != nil {
			die("mutant: %v", err)
		}
	}
	knownPath := filepath.Join(verifDir, "known_findings.json")
	engs := enginesOf(id)
	bins := map[string]string{}
	var rw *rewrite.Result
	for _, e := range engs {
		var extra []string
		if *race {
			extra = []string{"-race"}
		}
		b, w := build(verifDir, scratch, e, mut, extra, "-"+e.Name)
		bins[e.Name] = b
		if rw == nil {
			rw = w
		}
	}
	if *replay != "" {
		// the replay file names the engine that produced it
		var rf h.ReplayFile
		if b, err := os.ReadFile(*replay); err == nil {
			_ = json.Unmarshal(b, &rf)
		}
		bin := bins[eng.Name]
		if b, ok := bins[rf.Engine]; ok {
			bin = b
		}
		os.Exit(runReplay(bin, id, *replay, *tier, knownPath))
	}
	// run workers (the engines of a property share the wall budget)
	var results []*h.WorkerResult
	etc := tc
	if len(engs) > 1 {
		etc.BudgetS = tc.BudgetS/len(engs) + 1
	}
	for _, e := range engs {
		rs := runWorkers(bins[e.Name], scratch, id, *tier, *seedFlag, *workers, etc, knownPath, false)
		for _, r := range rs {
			if r != nil {
				for i := range r.Violations {
					r.Violations[i].Engine = e.Name
				}
			}
		}
		results = append(results, rs...)
	}
	code := aggregate(verifDir, scratch, bins, id, eng, cfg, *tier, *seedFlag, tc, results, rw, start, knownPath, !*noEvidence, mut)
	if !*keep {
		os.RemoveAll(scratch)
	}
	os.Exit(code)
}

func envOr(k, d string) string {
	if v := os.Getenv(k); v != "" {
		return v
	}
	return d
}

func envInt(k string, d int64) int64 {
	if v := os.Getenv(k); v != "" {
		if n, err := strconv.ParseInt(v, 10, 64); err == nil {
			return n
		}
	}
	return d
}

// build rewrites the current /repo tree and compiles the engine's harness binary.
func build(verifDir, scratch string, eng *engine, mut *mutant, extraTags []string, suffix string) (string, *rewrite.Result) {
	spec := rewrite.Spec{Repo: repo, FSPkgs: fsPkgs, EncSeam: true}
	if eng.Sync {
		spec.SyncPkgs = syncPkgs
	}
	if mut != nil {
		spec.Patches = mut.Patches
	}
	ovDir := filepath.Join(scratch, "overlay"+suffix)
	if err := os.MkdirAll(ovDir, 0o755); err != nil {
		die("%v", err)
	}
	rw, err := rewrite.Run(spec, ovDir)
	if err != nil {
		die("rewrite of /repo failed (unmodelled call or parse error): %v", err)
	}
	bin := filepath.Join(scratch, eng.Name+suffix+".test")
	tags := []string{"verif"}
	var flags []string
	for _, x := range extraTags {
		if strings.HasPrefix(x, "-") {
			flags = append(flags, x) // a build flag (-race), not a tag
		} else {
			tags = append(tags, x)
		}
	}
	args := append([]string{"test", "-c"}, flags...)
	args = append(args, "-tags", strings.Join(tags, ","), "-overlay", rw.OverlayPath, "-o", bin)
	if repo != "/repo" {
		args = append(args, "-modfile", altModfile(verifDir, scratch))
	}
	args = append(args, eng.Pkg)
	cmd := exec.Command(goBin(), args...)
	cmd.Dir = verifDir
	cmd.Env = goEnv()
	var out bytes.Buffer
	cmd.Stdout, cmd.Stderr = &out, &out
	if err := cmd.Run(); err != nil {
		die("build of %s failed: %v\n%s", eng.Pkg, err, out.String())
	}
	return bin, rw
}

// altModfile writes a copy of go.mod (and go.sum) whose replace directives point at VERIF_REPO.
func altModfile(verifDir, scratch string) string {
	mod := filepath.Join(scratch, "alt.mod")
	if _, err := os.Stat(mod); err == nil {
		return mod
	}
	b, err := os.ReadFile(filepath.Join(verifDir, "go.mod"))
	if err != nil {
		die("go.mod: %v", err)
	}
	s := strings.ReplaceAll(string(b), "=> /repo", "=> "+repo)
	if err := os.WriteFile(mod, []byte(s), 0o644); err != nil {
		die("%v", err)
	}
	sum, _ := os.ReadFile(filepath.Join(verifDir, "go.sum"))
	_ = os.WriteFile(filepath.Join(scratch, "alt.sum"), sum, 0o644)
	return mod
}

func runWorkers(bin, scratch, id, tier string, seed int64, workers int, tc tierCfg, knownPath string, det bool) []*h.WorkerResult {
	gmp := envOr("VERIF_GOMAXPROCS", "2")
	for i := range engines {
		if engines[i].SingleP && strings.Contains(filepath.Base(bin), engines[i].Name) {
			gmp = "1"
		}
	}
	if workers > tc.Runs {
		workers = tc.Runs
	}
	if workers < 1 {
		workers = 1
	}
	res := make([]*h.WorkerResult, workers)
	var wg sync.WaitGroup
	for w := 0; w < workers; w++ {
		wg.Add(1)
		go func(w int) {
			defer wg.Done()
			out := filepath.Join(scratch, fmt.Sprintf("result-%s-%d.json", id, w))
			os.Remove(out)
			cmd := exec.Command(bin, "-test.run", "^TestSim$", "-test.timeout", "0", "-test.count", "1")
			cmd.Env = append(os.Environ(),
				"VERIF_PROP="+id, "VERIF_MODE=batch", "VERIF_TIER="+tier,
				fmt.Sprintf("VERIF_SEED=%d", seed), fmt.Sprintf("VERIF_FROM=%d", w), fmt.Sprintf("VERIF_TO=%d", tc.Runs), fmt.Sprintf("VERIF_STRIDE=%d", workers),
				fmt.Sprintf("VERIF_BUDGET_S=%d", tc.BudgetS), fmt.Sprintf("VERIF_MIN_BUDGET_S=%d", tc.MinS),
				"VERIF_OUT="+out, "VERIF_KNOWN="+knownPath, "GOMAXPROCS="+gmp)
			if det {
				cmd.Env = append(cmd.Env, "VERIF_DET=1")
			}
			var buf bytes.Buffer
			cmd.Stdout, cmd.Stderr = &buf, &buf
			timer := time.AfterFunc(time.Duration(tc.BudgetS+tc.MinS*4+300)*time.Second, func() { _ = cmd.Process.Kill() })
			err := cmd.Run()
			timer.Stop()
			b, rerr := os.ReadFile(out)
			r := &h.WorkerResult{}
			if rerr != nil || json.Unmarshal(b, r) != nil {
				if cv := crashViolation(id, buf.String(), out+".current", seed); cv != nil {
					// the process died from a panic inside goProbe code (e.g. in a worker goroutine)
					r = &h.WorkerResult{Property: id, Evaluations: cv.Count, Violations: []h.VRec{*cv}}
					r.Violations[0].Count = 1
				} else {
					r.HarnessErr = fmt.Sprintf("worker %d produced no result (err=%v)\n%s", w, err, tail(buf.String(), 4000))
				}
			} else if err != nil && r.HarnessErr == "" {
				r.HarnessErr = fmt.Sprintf("worker %d exited with %v\n%s", w, err, tail(buf.String(), 4000))
			}
			res[w] = r
		}(w)
	}
	wg.Wait()
	return res
}

// crashViolation turns the death of a worker process by a panic raised in goProbe code into a
// violation record for the run that was executing (known from the marker file). A panic whose
// first non-runtime frame is harness code is a machinery failure and returns nil.
func crashViolation(id, output, marker string, seed int64) *h.VRec {
	i := -1
	for _, trigger := range []string{"panic: ", "fatal error: ", "SIGSEGV: ", "SIGBUS: ", "SIGABRT: ", "SIGFPE: ", "SIGILL: "} {
		if j := strings.Index(output, trigger); j >= 0 && (i < 0 || j < i) {
			i = j // a signal raised in C code (cgo compressors) kills the process without a Go panic
		}
	}
	if i < 0 {
		return nil
	}
	lines := strings.Split(output[i:], "\n")
	fn := ""
	for _, l := range lines[1:] {
		if l == "" || strings.HasPrefix(l, "\t") || strings.HasPrefix(l, "goroutine ") || strings.HasPrefix(l, "runtime.") || strings.HasPrefix(l, "panic(") || strings.HasPrefix(l, "[signal") ||
			!strings.Contains(l, "(") || !strings.HasSuffix(l, ")") { // not a stack frame (PC=..., "signal arrived during cgo execution")
			continue
		}
		// the first frame that belongs to goProbe or to the harness decides: a panic raised inside a
		// dependency (gotools, the compression libraries) on behalf of goProbe code is goProbe's
		if strings.HasPrefix(l, "github.com/els0r/goProbe") || strings.HasPrefix(l, "verif/") {
			fn = l
			break
		}
	}
	if j := strings.LastIndex(fn, "("); j > 0 {
		fn = fn[:j]
	}
	if !strings.HasPrefix(fn, "github.com/els0r/goProbe") {
		return nil
	}
	var idx, done int
	var rs uint64
	if b, err := os.ReadFile(marker); err == nil {
		fmt.Sscanf(string(b), "%d %d %d", &idx, &rs, &done)
	} else {
		return nil
	}
	if len(lines) > 40 {
		lines = lines[:40]
	}
	return &h.VRec{Property: id, Clause: "process-crash", Signature: "panic in " + fn, Detail: strings.Join(lines, "\n"), Seed: seed, RunIndex: idx, RunSeed: rs, Count: done}
}

func gmpFor(bin string) string {
	for i := range engines {
		if engines[i].SingleP && strings.Contains(filepath.Base(bin), engines[i].Name) {
			return "1"
		}
	}
	return "2"
}

func tail(s string, n int) string {
	if len(s) > n {
		return "…" + s[len(s)-n:]
	}
	return s
}

func runReplay(bin, id, file, tier, knownPath string) int {
	abs, _ := filepath.Abs(file)
	cmd := exec.Command(bin, "-test.run", "^TestSim$", "-test.timeout", "0", "-test.v")
	cmd.Env = append(os.Environ(), "VERIF_PROP="+id, "VERIF_MODE=replay", "VERIF_TIER="+tier, "VERIF_REPLAY="+abs, "VERIF_KNOWN="+knownPath, "GOMAXPROCS="+gmpFor(bin))
	var buf bytes.Buffer
	cmd.Stdout, cmd.Stderr = &buf, &buf
	err := cmd.Run()
	out := buf.String()
	fmt.Print(out)
	if err != nil && !strings.Contains(out, "REPLAY property=") && !strings.Contains(out, "HARNESS ERROR") {
		os.WriteFile(abs+".current", []byte("0 1 0"), 0o644)
		cv := crashViolation(id, out, abs+".current", 0)
		os.Remove(abs + ".current")
		if cv != nil {
			fmt.Printf("REPLAY property=%s clause=%s signature=%q (process crashed)\n", id, cv.Clause, cv.Signature)
			fmt.Printf("VIOLATION property=%s replay=%s\n", id, abs)
			return 1
		}
	}
	if strings.Contains(out, "HARNESS ERROR") || (err != nil && !strings.Contains(out, "REPLAY property=")) {
		return 2
	}
	if strings.Contains(out, "REPLAY property="+id+" clause=") {
		fmt.Printf("VIOLATION property=%s replay=%s\n", id, abs)
		return 1
	}
	return 0
}

// replayClass re-executes a replay file in a fresh process and returns the violation class found.
func replayClass(bin, id, file, tier, knownPath string) (string, string) {
	var want h.ReplayFile
	if b, err := os.ReadFile(file); err == nil {
		_ = json.Unmarshal(b, &want)
	}
	wantClass := want.Property + "/" + want.Clause + "/" + want.Signature
	var got, problem, other string
	for i := 0; i < 4; i++ { // retried: a few properties depend on Go map iteration order inside goProbe
		got, problem = replayClassOnce(bin, id, file, tier, knownPath)
		if got == wantClass {
			break
		}
		if got != "" {
			other = got
		}
	}
	if got != wantClass && other != "" {
		got = other // a violation of another class (relevant for runtime-random runs only)
	}
	return got, problem
}

func replayClassOnce(bin, id, file, tier, knownPath string) (string, string) {
	out := file + ".result"
	cmd := exec.Command(bin, "-test.run", "^TestSim$", "-test.timeout", "0")
	cmd.Env = append(os.Environ(), "VERIF_PROP="+id, "VERIF_MODE=replay", "VERIF_TIER="+tier, "VERIF_REPLAY="+file, "VERIF_OUT="+out, "VERIF_KNOWN="+knownPath, "GOMAXPROCS="+gmpFor(bin))
	var buf bytes.Buffer
	cmd.Stdout, cmd.Stderr = &buf, &buf
	_ = cmd.Run()
	defer os.Remove(out)
	b, err := os.ReadFile(out)
	if err != nil {
		os.WriteFile(file+".current", []byte("0 1 0"), 0o644)
		cv := crashViolation(id, buf.String(), file+".current", 0)
		os.Remove(file + ".current")
		if cv != nil {
			return cv.Property + "/" + cv.Clause + "/" + cv.Signature, ""
		}
		return "", "no replay result: " + tail(buf.String(), 2000)
	}
	var r h.WorkerResult
	if json.Unmarshal(b, &r) != nil || r.HarnessErr != "" {
		return "", "replay harness error: " + r.HarnessErr
	}
	if len(r.Violations) == 0 {
		return "", "replay found no violation"
	}
	v := r.Violations[0]
	return v.Property + "/" + v.Clause + "/" + v.Signature, ""
}

func repoState() string {
	out, _ := exec.Command("git", "-C", repo, "rev-parse", "HEAD").Output()
	st, _ := exec.Command("git", "-C", repo, "status", "--porcelain").Output()
	s := strings.TrimSpace(string(out))
	if len(bytes.TrimSpace(st)) > 0 {
		s += "+dirty"
	}
	return s
}

func aggregate(verifDir, scratch string, bins map[string]string, id string, eng *engine, cfg propCfg, tier string, seed int64, tc tierCfg, results []*h.WorkerResult, rw *rewrite.Result,
	start time.Time, knownPath string, writeEvidence bool, mut *mutant) int {
	total := &h.WorkerResult{Faults: map[string]int{}, Probes: map[string]int{}, Shapes: map[string]int{}}
	distinct := map[uint64]bool{}
	viol := map[string]*h.VRec{}
	known := map[string]*h.VRec{}
	var harnessErrs []string
	for _, r := range results {
		if r == nil {
			continue
		}
		if r.HarnessErr != "" {
			harnessErrs = append(harnessErrs, r.HarnessErr)
		}
		total.Evaluations += r.Evaluations
		total.Steps += r.Steps
		total.SimTimeNs += r.SimTimeNs
		for _, x := range r.Nontrivial {
			distinct[x] = true
		}
		for k, v := range r.Faults {
			total.Faults[k] += v
		}
		for k, v := range r.Probes {
			total.Probes[k] += v
		}
		for k, v := range r.Shapes {
			total.Shapes[k] += v
		}
		if len(total.Samples) < 3 {
			total.Samples = append(total.Samples, r.Samples...)
		}
		if r.Rule != "" {
			total.Rule, total.Real, total.Stub, total.Assumptions = r.Rule, r.Real, r.Stub, r.Assumptions
		}
		for i := range r.Violations {
			v := r.Violations[i]
			c := v.Property + "/" + v.Clause + "/" + v.Signature
			if o, ok := viol[c]; ok {
				o.Count += v.Count
				if len(v.Tape) < len(o.Tape) {
					cnt := o.Count
					*o = v
					o.Count = cnt
				}
			} else {
				viol[c] = &v
			}
		}
		for i := range r.KnownHits {
			v := r.KnownHits[i]
			c := v.Property + "/" + v.Clause + "/" + v.Signature
			if o, ok := known[c]; ok {
				o.Count += v.Count
			} else {
				known[c] = &v
			}
		}
	}
	wall := time.Since(start).Seconds()
	if len(harnessErrs) > 0 {
		fmt.Fprintf(os.Stderr, "check %s: machinery failure (not a verdict on the property):\n%s\n", id, harnessErrs[0])
		return 2
	}
	// known findings
	var knownList []h.Known
	if b, err := os.ReadFile(knownPath); err == nil {
		_ = json.Unmarshal(b, &knownList)
	}
	for _, c := range sortedKeys(known) {
		k := known[c]
		what := k.Signature
		for _, kl := range knownList {
			if kl.Property == k.Property && kl.Clause == k.Clause && kl.Signature == k.Signature {
				what = kl.What
			}
		}
		fmt.Printf("KNOWN-FINDING: property=%s clause=%s [%s] %s (hit in %d runs)\n", id, k.Clause, k.Signature, what, k.Count)
	}
	// violations: verify each in a fresh process before reporting
	code := 0
	replayDir := filepath.Join(verifDir, "evidence", "replays")
	var reported []string
	for _, c := range sortedKeys(viol) {
		v := viol[c]
		_ = os.MkdirAll(replayDir, 0o755)
		name := fmt.Sprintf("%s-%d-%d.json", id, seed, v.RunIndex)
		if mut != nil {
			name = fmt.Sprintf("%s-mutant-%s-%d-%d.json", id, mut.Name, seed, v.RunIndex)
		}
		path := filepath.Join(replayDir, name)
		for n := 1; ; n++ {
			if _, err := os.Stat(path); err != nil || n > 50 {
				break
			}
			path = filepath.Join(replayDir, strings.TrimSuffix(name, ".json")+fmt.Sprintf("-%d.json", n))
		}
		v.RepoHead = repoState()
		rf := h.ReplayFile{VRec: *v, Note: "replay with: ./check " + id + " --replay " + path}
		b, _ := json.MarshalIndent(rf, "", " ")
		if err := os.WriteFile(path, b, 0o644); err != nil {
			die("write replay: %v", err)
		}
		bin := bins[eng.Name]
		if b, ok := bins[v.Engine]; ok {
			bin = b
		}
		got, problem := replayClass(bin, id, path, tier, knownPath)
		if got != c && (v.RuntimeRandom || v.Clause == "process-crash") && got != "" {
			// the run declared itself dependent on Go map order inside goProbe (several captures),
			// or it killed its worker process with a panic in goProbe code (the record is made by
			// the driver, which cannot know what the run declared):
			// what the defect does to it differs from execution to execution (wrong key, lost
			// packets, a crash). It is reported when re-executing it in a fresh process violates
			// the property again, under whatever clause
			fmt.Printf("  (runtime-random run: the fresh-process replay violated the property as %s)\n", got)
			got = c
		}
		if got != c {
			fmt.Fprintf(os.Stderr, "check %s: a violation (%s) did not reproduce from its replay file in a fresh process (%s %s): harness nondeterminism, nothing reported\n", id, c, got, problem)
			if code == 0 {
				code = 2
			}
			continue
		}
		fmt.Printf("VIOLATION property=%s replay=%s\n", id, path)
		fmt.Printf("  clause=%s signature=%q runs=%d tape=%d values (was %d)\n%s\n", v.Clause, v.Signature, v.Count, len(v.Tape), v.TapeOrig, indent(v.Detail))
		reported = append(reported, c)
		code = 1
	}
	if writeEvidence && mut == nil && repo == "/repo" {
		ev := map[string]any{
			"property_id": id,
			"tier":        tier,
			"seed":        seed,
			"level":       cfg.Level,
			"wall_s":      wall,
			"violations":  len(reported),
			"assumptions": total.Assumptions,
			"coverage": map[string]any{
				"evaluations":               total.Evaluations,
				"distinct_nontrivial":       len(distinct),
				"rule":                      total.Rule,
				"samples":                   total.Samples,
				"exhaustive":                false,
				"scheduler_steps_or_fs_ops": total.Steps,
				"sim_time_covered_s":        float64(total.SimTimeNs) / 1e9,
				"runs_per_hour":             float64(total.Evaluations) / wall * 3600,
				"fault_counts":              total.Faults,
				"probes":                    total.Probes,
				"shapes":                    total.Shapes,
				"components_real":           total.Real,
				"components_stub":           total.Stub,
				"known_findings_hit":        sortedKeys(known),
				"workers":                   len(results),
				"repo_state":                repoState(),
				"rewritten_files":           rw.Files,
				"rewritten_fs_call_sites":   rw.FSSites,
				"rewritten_mutex_sites":     rw.SyncSites,
				"build_config":              "go1.26.8 test -c -tags verif -overlay (CGO_ENABLED=1)",
			},
		}
		if cfg.Level == "fault_enumeration" {
			ev["coverage"].(map[string]any)["exhaustive_note"] = "crash/error points are enumerated exhaustively per generated history (every mutating operation boundary); histories are sampled"
		}
		b, _ := json.MarshalIndent(ev, "", " ")
		_ = os.MkdirAll(filepath.Join(verifDir, "evidence"), 0o755)
		if err := os.WriteFile(filepath.Join(verifDir, "evidence", id+".json"), b, 0o644); err != nil {
			die("write evidence: %v", err)
		}
	}
	fmt.Printf("check %s tier=%s seed=%d: %d evaluations, %d distinct non-trivial, %d violation class(es), %d known finding(s), %.1fs\n",
		id, tier, seed, total.Evaluations, len(distinct), len(reported), len(known), wall)
	if total.Evaluations == 0 && code == 0 {
		fmt.Fprintf(os.Stderr, "check %s: no run executed\n", id)
		return 2
	}
	return code
}

func indent(s string) string { return "    " + strings.ReplaceAll(s, "\n", "\n    ") }

func sortedKeys(m map[string]*h.VRec) []string {
	ks := make([]string, 0, len(m))
	for k := range m {
		ks = append(ks, k)
	}
	sort.Strings(ks)
	return ks
}
