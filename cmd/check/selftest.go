package main

import (
	"bytes"
	"encoding/json"
	"fmt"
	"os"
	"os/exec"
	"path/filepath"
	"strings"
	"sync"
	"time"
)

// detProps lists, per engine, the properties whose runs are used by the determinism self-test.
var detProps = map[string][]string{
	"store-sim":   {"C04", "C05", "C02"},
	"stream-sim":  {"C07"},
	"merge-sim":   {"C25"},
	"query-sim":   {"C11", "C30", "C31", "C06", "C08"},
	"capture-sim": {"C21", "C22", "C29"},
	"dist-sim":    {"C15", "C31"},
}

// detRuns is the number of runs (quick, thorough) whose event-log hashes are compared per property.
// The scheduled engines get large samples: a seam that is missing only in a rare situation (two
// requests timing out at the same simulated instant: 0.3% of the C15 runs) does not show in 40 runs.
var detRuns = map[string][2]int{
	"C04": {40, 120}, "C05": {40, 120}, "C25": {16, 120}, "C02": {16, 60}, "C07": {200, 2000}, "C06": {160, 1600}, "C08": {32, 320},
	"C11": {200, 2000}, "C30": {200, 2000},
	"C21": {400, 4000}, "C22": {400, 4000}, "C29": {400, 4000},
	"C15": {2000, 20000},
}

func detRunsOf(id, engine, tier string) int {
	n, ok := detRuns[id]
	if !ok {
		n = [2]int{200, 2000}
		if id == "C31" && engine == "dist-sim" {
			n = [2]int{1000, 8000}
		}
	}
	if tier == "thorough" {
		return n[1]
	}
	return n[0]
}

// rerunAlone executes one run index alone in reps fresh processes and returns the hashes.
func rerunAlone(bin, scratch, id, knownPath string, seed int64, run, reps int, gmp string) ([]uint64, string) {
	hashes := make([]uint64, reps)
	errs := make([]string, reps)
	var wg sync.WaitGroup
	for k := 0; k < reps; k++ {
		wg.Add(1)
		go func(k int) {
			defer wg.Done()
			out := filepath.Join(scratch, fmt.Sprintf("rerun-%s-%d-%d.json", id, run, k))
			os.Remove(out)
			cmd := exec.Command(bin, "-test.run", "^TestSim$", "-test.timeout", "0", "-test.count", "1")
			cmd.Env = append(os.Environ(), "VERIF_PROP="+id, "VERIF_MODE=batch", "VERIF_TIER=quick", fmt.Sprintf("VERIF_SEED=%d", seed),
				fmt.Sprintf("VERIF_FROM=%d", run), fmt.Sprintf("VERIF_TO=%d", run+1), "VERIF_STRIDE=1", "VERIF_BUDGET_S=600", "VERIF_MIN_BUDGET_S=1",
				"VERIF_OUT="+out, "VERIF_KNOWN="+knownPath, "VERIF_DET=1", "GOMAXPROCS="+gmp)
			var buf bytes.Buffer
			cmd.Stdout, cmd.Stderr = &buf, &buf
			_ = cmd.Run()
			b, err := os.ReadFile(out)
			r := &struct {
				DetHashes map[int]uint64 `json:"det_hashes"`
			}{}
			if err != nil || json.Unmarshal(b, r) != nil {
				errs[k] = "no result: " + tail(buf.String(), 1000)
				return
			}
			hashes[k] = r.DetHashes[run]
			os.Remove(out)
		}(k)
	}
	wg.Wait()
	for _, e := range errs {
		if e != "" {
			return nil, e
		}
	}
	return hashes, ""
}

// selftest runs (1) the differential test of simfs against the real kernel and (2) the
// determinism self-test: the same runs executed in separate processes (GOMAXPROCS 1, 4 and 16; three
// times GOMAXPROCS 1 for the single-P engines) must produce identical event-log hashes.
//
// A run whose hashes differ is executed again, alone, in 24 fresh processes. If these executions
// differ among themselves, or agree on a hash that none of the sweeps produced, the run itself is
// nondeterministic (a missing seam, unordered iteration, state carried from run to run): exit 2.
// If they all reproduce the hash of the majority of the sweeps, the odd execution was perturbed
// from outside the simulation (the Go runtime preempts a goroutine that has been on the processor
// for 10 ms of wall time, which a loaded machine stretches a step to; no seam can own that): it
// is counted as a transient divergence, reported in evidence/selftest.json, and tolerated up to
// one per 500 executions of a property (at least two). Any failure is exit 2 (machinery), never
// a violation; every violation a check reports has been reproduced from its replay file in a fresh
// process before, so a perturbed execution cannot turn into a verdict.
func selftest(verifDir, tier string, seed int64) int {
	start := time.Now()
	seqs := 2000
	if tier == "thorough" {
		seqs = 20000
	}
	// 1. simfs differential test
	cmd := exec.Command(goBin(), "test", "-count=1", "-run", "^TestDiffKernel$", "./simfs")
	cmd.Dir = verifDir
	cmd.Env = append(goEnv(), fmt.Sprintf("VERIF_DIFF_SEQS=%d", seqs), fmt.Sprintf("VERIF_SEED=%d", seed))
	var out bytes.Buffer
	cmd.Stdout, cmd.Stderr = &out, &out
	if err := cmd.Run(); err != nil {
		fmt.Fprintf(os.Stderr, "selftest: simfs differs from the kernel (or test failed): %v\n%s\n", err, out.String())
		return 2
	}
	fmt.Printf("selftest: simfs differential test vs kernel: %d sequences, 0 divergences\n", seqs)
	// 2. determinism
	scratch, err := os.MkdirTemp("", "verif-selftest-")
	if err != nil {
		die("%v", err)
	}
	defer os.RemoveAll(scratch)
	summary := map[string]any{}
	for i := range engines {
		eng := &engines[i]
		props := detProps[eng.Name]
		if only := os.Getenv("VERIF_SELFTEST_ONLY"); only != "" && only != eng.Name {
			continue // diagnostics: restrict the determinism self-test to one engine
		}
		if len(props) == 0 {
			continue
		}
		bin, _ := build(verifDir, scratch, eng, nil, nil, "-"+eng.Name)
		for _, id := range props {
			gmps := []string{"1", "4", "16"}
			if eng.SingleP {
				gmps = []string{"1", "1", "1"} // single-P engines: three executions in separate processes
			}
			n := detRunsOf(id, eng.Name, tier)
			sweeps := make([]map[int]uint64, len(gmps))
			for si, gmp := range gmps {
				os.Setenv("VERIF_GOMAXPROCS", gmp)
				res := runWorkers(bin, scratch, id, "quick", seed, 16, tierCfg{Runs: n, BudgetS: 3600, MinS: 1}, filepath.Join(verifDir, "known_findings.json"), true)
				os.Unsetenv("VERIF_GOMAXPROCS")
				got := map[int]uint64{}
				for _, r := range res {
					if r.HarnessErr != "" {
						fmt.Fprintf(os.Stderr, "selftest: %s: %s\n", id, r.HarnessErr)
						return 2
					}
					for k, v := range r.DetHashes {
						got[k] = v
					}
				}
				if len(got) != n {
					fmt.Fprintf(os.Stderr, "selftest: %s/%s: %d of %d runs reported a hash\n", eng.Name, id, len(got), n)
					return 2
				}
				sweeps[si] = got
			}
			// test of the self-test: VERIF_SELFTEST_PERTURB=<id>:<run> falsifies the hash one sweep
			// recorded for a run, which must come out as one transient divergence (the run itself
			// is deterministic); <id>:<run>:all falsifies it in every sweep but the first (no majority).
			if f := strings.Split(os.Getenv("VERIF_SELFTEST_PERTURB"), ":"); len(f) >= 2 && f[0] == id {
				var k int
				fmt.Sscanf(f[1], "%d", &k)
				sweeps[1][k] ^= 0x5555
				if len(f) > 2 {
					sweeps[2][k] ^= 0x3333
				}
			}
			var divergent []int
			for k := 0; k < n; k++ {
				for si := 1; si < len(sweeps); si++ {
					if sweeps[si][k] != sweeps[0][k] {
						divergent = append(divergent, k)
						break
					}
				}
			}
			executions := n * len(gmps)
			allowed := executions / 500
			if allowed < 2 {
				allowed = 2
			}
			if len(divergent) > allowed {
				fmt.Fprintf(os.Stderr, "selftest: NONDETERMINISM in %s/%s: %d of %d runs differ between executions (runs %v)\n", eng.Name, id, len(divergent), n, divergent)
				return 2
			}
			for _, k := range divergent {
				count := map[uint64]int{}
				for _, sw := range sweeps {
					count[sw[k]]++
				}
				var major uint64
				for hsh, c := range count {
					if c > count[major] || major == 0 {
						major = hsh
					}
				}
				if count[major]*2 <= len(sweeps) {
					fmt.Fprintf(os.Stderr, "selftest: NONDETERMINISM in %s/%s: run %d has no majority hash among the sweeps (%v)\n", eng.Name, id, k, count)
					return 2
				}
				gmp := gmps[0]
				hashes, problem := rerunAlone(bin, scratch, id, filepath.Join(verifDir, "known_findings.json"), seed, k, 24, gmp)
				if problem != "" {
					fmt.Fprintf(os.Stderr, "selftest: %s/%s: re-execution of run %d failed: %s\n", eng.Name, id, k, problem)
					return 2
				}
				for _, hsh := range hashes {
					if hsh != major {
						fmt.Fprintf(os.Stderr, "selftest: NONDETERMINISM in %s/%s: run %d: sweeps %v, alone in 24 fresh processes %x (majority of the sweeps %x)\n", eng.Name, id, k, count, hashes, major)
						return 2
					}
				}
				fmt.Printf("selftest: %s/%s run %d: one perturbed execution (hashes %v); 24 further executions in fresh processes all reproduce %x\n", eng.Name, id, k, count, major)
			}
			fmt.Printf("selftest: determinism %s/%s: %d runs x GOMAXPROCS{%s} in separate processes, %d transient divergence(s)\n", eng.Name, id, n, strings.Join(gmps, ","), len(divergent))
			summary[eng.Name+"/"+id] = map[string]any{"runs": n, "executions": executions, "divergences": 0, "transient_divergences_reexecuted_24x_identical": len(divergent)}
		}
	}
	b, _ := json.MarshalIndent(map[string]any{"simfs_difftest": map[string]any{"sequences": seqs, "divergences": 0}, "determinism": summary, "seed": seed, "wall_s": time.Since(start).Seconds()}, "", " ")
	_ = os.MkdirAll(filepath.Join(verifDir, "evidence"), 0o755)
	_ = os.WriteFile(filepath.Join(verifDir, "evidence", "selftest.json"), b, 0o644)
	return 0
}
