package main

import (
	"bytes"
	"strings"
	"encoding/json"
	"fmt"
	"os"
	"os/exec"
	"path/filepath"
	"time"
)

// detProps lists, per engine, the properties whose runs are used by the determinism self-test.
var detProps = map[string][]string{
	"store-sim": {"C04", "C05"},
	"merge-sim": {"C25"},
	"query-sim": {"C11", "C30", "C31"},
	"capture-sim": {"C21", "C22", "C29"},
	"dist-sim": {"C15", "C31"},
}

// selftest runs (1) the differential test of simfs against the real kernel and (2) the
// determinism self-test: same seeds in separate processes at GOMAXPROCS 1, 4 and 16 must produce
// identical event-log hashes. Any failure is exit 2 (machinery), never a violation.
func selftest(verifDir, tier string, seed int64) int {
	start := time.Now()
	seqs := 2000
	seeds := 40
	if tier == "thorough" {
		seqs = 20000
		seeds = 120
	}
	// 1. simfs differential test
	cmd := exec.Command(goBin(), "test", "-count=1", "-run", "^TestDiffKernel$", "./simfs")
	cmd.Dir = verifDir
	cmd.Env = append(goEnv(), fmt.Sprintf("VERIF_DIFF_SEQS=%d", seqs), fmt.Sprintf("VERIF_SEED=%d", seed))
	var out bytes.Buffer
	cmd.Stdout, cmd.Stderr = &out, &out
	if err := cmd.Run(); err != nil {
		fmt.Fprintf(os.Stderr, "selftest: simfs differs from the kernel (or test failed): %v\n%s\n", err, out.String())
		return 2
	}
	fmt.Printf("selftest: simfs differential test vs kernel: %d sequences, 0 divergences\n", seqs)
	// 2. determinism
	scratch, err := os.MkdirTemp("", "verif-selftest-")
	if err != nil {
		die("%v", err)
	}
	defer os.RemoveAll(scratch)
	summary := map[string]any{}
	for i := range engines {
		eng := &engines[i]
		props := detProps[eng.Name]
		if len(props) == 0 {
			continue
		}
		bin, _ := build(verifDir, scratch, eng, nil, nil, "-"+eng.Name)
		for _, id := range props {
			var ref map[int]uint64
			gmps := []string{"1", "4", "16"}
			if eng.SingleP {
				gmps = []string{"1", "1", "1"} // single-P engines: three executions in separate processes
			}
			for _, gmp := range gmps {
				os.Setenv("VERIF_GOMAXPROCS", gmp)
				n := seeds
				if id == "C25" && tier != "thorough" {
					n = 16 // heavy runs (complete days); the thorough tier uses the full sample
				}
				res := runWorkers(bin, scratch, id, "quick", seed, 8, tierCfg{Runs: n, BudgetS: 600, MinS: 1}, filepath.Join(verifDir, "known_findings.json"), true)
				os.Unsetenv("VERIF_GOMAXPROCS")
				got := map[int]uint64{}
				for _, r := range res {
					if r.HarnessErr != "" {
						fmt.Fprintf(os.Stderr, "selftest: %s: %s\n", id, r.HarnessErr)
						return 2
					}
					for k, v := range r.DetHashes {
						got[k] = v
					}
				}
				if ref == nil {
					ref = got
					continue
				}
				for k, v := range ref {
					if got[k] != v {
						fmt.Fprintf(os.Stderr, "selftest: NONDETERMINISM in %s: run %d hash %x (GOMAXPROCS=1) vs %x (GOMAXPROCS=%s)\n", id, k, v, got[k], gmp)
						return 2
					}
				}
			}
			fmt.Printf("selftest: determinism %s/%s: %d seeds x GOMAXPROCS{%s} in separate processes, 0 divergences\n", eng.Name, id, len(ref), strings.Join(gmps, ","))
			summary[id] = map[string]any{"seeds": len(ref), "divergences": 0}
		}
	}
	b, _ := json.MarshalIndent(map[string]any{"simfs_difftest": map[string]any{"sequences": seqs, "divergences": 0}, "determinism": summary, "wall_s": time.Since(start).Seconds()}, "", " ")
	_ = os.MkdirAll(filepath.Join(verifDir, "evidence"), 0o755)
	_ = os.WriteFile(filepath.Join(verifDir, "evidence", "selftest.json"), b, 0o644)
	return 0
}
