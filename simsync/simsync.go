// Package simsync provides drop-in replacements for sync.Mutex and sync.RWMutex whose waiting is
// a channel receive (durably blocked for testing/synctest, unlike sync.Mutex) and whose
// acquisition is a scheduling point of the simulator. Hand-over is FIFO, hence deterministic.
package simsync

import "sync"

// Yield, when set, is called before every lock acquisition (the scheduler parks the caller).
var Yield func(what string)

// LoopYield, when set, is called at the top of every iteration of the event loops of the capture
// packages (verif/rewrite inserts a call to Loop into every bare `for { ... }` statement there), so
// that the simulator can interleave other goroutines between two iterations of a loop that has no
// seam of its own (the loop that drains the local packet buffer).
var LoopYield func(what string)

// Loop is the inserted call.
func Loop(what string) {
	if y := LoopYield; y != nil {
		y(what)
	}
}

type waiter struct {
	ch     chan struct{}
	writer bool
}

// Mutex replaces sync.Mutex. The zero value is an unlocked mutex.
type Mutex struct {
	g       sync.Mutex
	locked  bool
	waiters []chan struct{}
}

// Lock acquires the mutex.
func (m *Mutex) Lock() {
	if y := Yield; y != nil {
		y("mutex.lock")
	}
	m.g.Lock()
	if !m.locked {
		m.locked = true
		m.g.Unlock()
		return
	}
	ch := make(chan struct{})
	m.waiters = append(m.waiters, ch)
	m.g.Unlock()
	<-ch // ownership is handed over by Unlock
}

// TryLock tries to acquire the mutex.
func (m *Mutex) TryLock() bool {
	m.g.Lock()
	defer m.g.Unlock()
	if m.locked {
		return false
	}
	m.locked = true
	return true
}

// Unlock releases the mutex.
func (m *Mutex) Unlock() {
	m.g.Lock()
	if !m.locked {
		m.g.Unlock()
		panic("simsync: unlock of unlocked mutex")
	}
	if len(m.waiters) > 0 {
		ch := m.waiters[0]
		m.waiters = m.waiters[1:]
		m.g.Unlock()
		close(ch)
		return
	}
	m.locked = false
	m.g.Unlock()
}

// RWMutex replaces sync.RWMutex (writer-preferring like the original: a queued writer blocks new
// readers).
type RWMutex struct {
	g       sync.Mutex
	readers int
	writer  bool
	queue   []waiter
}

// Lock acquires the write lock.
func (m *RWMutex) Lock() {
	if y := Yield; y != nil {
		y("rwmutex.lock")
	}
	m.g.Lock()
	if !m.writer && m.readers == 0 && len(m.queue) == 0 {
		m.writer = true
		m.g.Unlock()
		return
	}
	w := waiter{ch: make(chan struct{}), writer: true}
	m.queue = append(m.queue, w)
	m.g.Unlock()
	<-w.ch
}

// Unlock releases the write lock.
func (m *RWMutex) Unlock() {
	m.g.Lock()
	if !m.writer {
		m.g.Unlock()
		panic("simsync: unlock of unlocked RWMutex")
	}
	m.writer = false
	m.wake()
	m.g.Unlock()
}

// RLock acquires a read lock.
func (m *RWMutex) RLock() {
	if y := Yield; y != nil {
		y("rwmutex.rlock")
	}
	m.g.Lock()
	if !m.writer && len(m.queue) == 0 {
		m.readers++
		m.g.Unlock()
		return
	}
	w := waiter{ch: make(chan struct{})}
	m.queue = append(m.queue, w)
	m.g.Unlock()
	<-w.ch
}

// RUnlock releases a read lock.
func (m *RWMutex) RUnlock() {
	m.g.Lock()
	if m.readers <= 0 {
		m.g.Unlock()
		panic("simsync: RUnlock of unlocked RWMutex")
	}
	m.readers--
	if m.readers == 0 {
		m.wake()
	}
	m.g.Unlock()
}

// TryLock tries to take the write lock.
func (m *RWMutex) TryLock() bool {
	m.g.Lock()
	defer m.g.Unlock()
	if m.writer || m.readers > 0 || len(m.queue) > 0 {
		return false
	}
	m.writer = true
	return true
}

// TryRLock tries to take a read lock.
func (m *RWMutex) TryRLock() bool {
	m.g.Lock()
	defer m.g.Unlock()
	if m.writer || len(m.queue) > 0 {
		return false
	}
	m.readers++
	return true
}

// RLocker returns a Locker for the read side.
func (m *RWMutex) RLocker() sync.Locker { return (*rlocker)(m) }

type rlocker RWMutex

func (r *rlocker) Lock()   { (*RWMutex)(r).RLock() }
func (r *rlocker) Unlock() { (*RWMutex)(r).RUnlock() }

// wake hands the lock to the head of the queue (one writer, or all readers up to the next
// writer). Called with m.g held, lock free.
func (m *RWMutex) wake() {
	if m.writer || len(m.queue) == 0 {
		return
	}
	if m.queue[0].writer {
		if m.readers > 0 {
			return
		}
		w := m.queue[0]
		m.queue = m.queue[1:]
		m.writer = true
		close(w.ch)
		return
	}
	for len(m.queue) > 0 && !m.queue[0].writer {
		w := m.queue[0]
		m.queue = m.queue[1:]
		m.readers++
		close(w.ch)
	}
}
