package dbcheck

import (
	"context"
	"fmt"
	"sort"
	"strings"
	"time"

	"verif/model"
	"verif/sim"
	"verif/simfs"
)

// View is a reader process' view of one database on the simulated disk together with the means
// to compare it with the reference store model.
type View struct {
	FS   *simfs.FS
	R    *sim.R
	Tree string // simfs tree
	Rel  string // database root inside the tree ("/db")
	Path string // database root as the reader process sees it ("/sim/r/db")
	// EmptyDayOK names an (iface/day) whose directory may exist without metadata and without being
	// part of the model (left behind by a rejected first session)
	EmptyDayOK string
	// IgnoreDirs lists entries of the database root that are not interfaces for the purpose of the
	// model comparison (none by default)
}

// DayPath returns the tree-relative path of a day directory.
func DayPath(rel, iface string, ts int64, dirName string) string {
	t := time.Unix(model.DayOf(ts), 0).UTC()
	return fmt.Sprintf("%s/%s/%d/%02d/%s", rel, iface, t.Year(), int(t.Month()), dirName)
}

// visibleState reads the whole database back through the real reader (as the reader process) and
// compares it with the model. inflight (optional) is an un-acknowledged block that may or may not
// be visible in its day. It returns the store the reader sees when that is a legal state.
func (wd *View) CheckStore(m *model.Store, inflight *model.Block, inflightIface string) (seen *model.Store, clause, detail string) {
	seen = m.Clone()
	dirs := AllDayDirs(wd.FS, wd.Tree, wd.Rel)
	// every day of the model must be present exactly once
	type key struct {
		iface string
		day   int64
	}
	want := map[key]bool{}
	for _, iface := range m.IfaceNames() {
		for _, d := range m.Days(iface) {
			want[key{iface, d}] = true
		}
	}
	var inflightKey key
	if inflight != nil {
		inflightKey = key{inflightIface, model.DayOf(inflight.TS)}
	}
	var keys []key
	for iface, days := range dirs {
		for d := range days {
			keys = append(keys, key{iface, d})
		}
	}
	for k := range want {
		if _, ok := dirs[k.iface][k.day]; !ok {
			keys = append(keys, k)
		}
	}
	sort.Slice(keys, func(i, j int) bool {
		if keys[i].iface != keys[j].iface {
			return keys[i].iface < keys[j].iface
		}
		return keys[i].day < keys[j].day
	})
	for _, k := range keys {
		names := dirs[k.iface][k.day]
		if len(names) == 0 {
			return nil, "day-missing", fmt.Sprintf("iface %s day %d: committed day directory is gone", k.iface, k.day)
		}
		if len(names) > 1 {
			return nil, "day-duplicated", fmt.Sprintf("iface %s day %d: several directories %v", k.iface, k.day, names)
		}
		wantDay := m.Ifaces[k.iface][k.day]
		isInflightDay := inflight != nil && k == inflightKey
		if wantDay == nil && !isInflightDay && strings.Contains(wd.EmptyDayOK, fmt.Sprintf(";%s/%d;", k.iface, k.day)) {
			if _, ok := wd.FS.ReadRaw(wd.Tree, fmt.Sprintf("%s/.blockmeta", DayPath(wd.Rel, k.iface, k.day, names[0]))); !ok {
				continue
			}
		}
		if wantDay == nil && !isInflightDay {
			return nil, "day-unexpected", fmt.Sprintf("iface %s day %d: directory %s holds a day that was never written", k.iface, k.day, names[0])
		}
		if wantDay == nil {
			wantDay = &model.Day{}
		}
		var first *DayContent
		for pass := 0; pass < 3; pass++ {
			// pass 0: default reader, forward; pass 1: read-all reader, backwards; pass 2: default
			// reader, zigzag (jumps followed by sequential reads, a block read twice)
			mode := pass % 2
			got, err := ReadDay(wd.Path+"/"+k.iface, k.day, names[0], mode, pass)
			if err != nil {
				if isInflightDay && len(wantDay.Blocks) == 0 {
					// a day that holds no committed block yet may be unreadable as such; what
					// matters is that listings and queries cope with it (checked separately)
					wd.R.Probe("inflight_day_unreadable")
					first = nil
					break
				}
				return nil, "day-unreadable", fmt.Sprintf("iface %s day %d (%s): %v", k.iface, k.day, names[0], err)
			}
			if pass == 0 {
				first = got
			}
			diff := CompareDay(wantDay, got)
			if diff != "" && isInflightDay {
				with := &model.Day{Blocks: append(append([]model.Block(nil), wantDay.Blocks...), *inflight)}
				if d2 := CompareDay(with, got); d2 == "" {
					diff = ""
					if pass == 0 {
						seen.Add(k.iface, *inflight)
						wd.R.Probe("inflight_block_visible")
					}
				}
			}
			if diff != "" {
				return nil, "readback-differs", fmt.Sprintf("iface %s day %d (%s, reader mode %d, read order %d): %s", k.iface, k.day, names[0], mode, pass, diff)
			}
		}
		// the directory-name suffix is what listings use without opening the metadata; a stale one
		// shows up behaviourally in checkServices (listing-disagrees), here it is only a probe
		if first != nil && first.HasSuffix && (first.SufTraffic != first.MetaTraffic || first.SufCounts != first.MetaCounts) {
			wd.R.Probe("dirname_summary_stale")
		}
	}
	return seen, "", ""
}

// expectedRows renders the rows a full query (all attributes, time and iface labels) must return.
func ExpectedRows(m *model.Store, first, last int64) []string {
	var out []string
	for _, iface := range m.IfaceNames() {
		for _, d := range m.Days(iface) {
			for _, b := range m.Ifaces[iface][d].Blocks {
				if b.TS < first || b.TS > last {
					continue
				}
				for _, f := range b.Flows {
					out = append(out, fmt.Sprintf("%d|%s|%s|%s|%d|%d|br=%d bs=%d pr=%d ps=%d", b.TS, iface, model.IPString(f.Sip), model.IPString(f.Dip), f.Dport, f.Proto, f.C.BR, f.C.BS, f.C.PR, f.C.PS))
				}
			}
		}
	}
	sort.Strings(out)
	return out
}

func DiffRows(want, got []string) string {
	wm := map[string]int{}
	for _, s := range want {
		wm[s]++
	}
	var extra, missing []string
	for _, s := range got {
		if wm[s] > 0 {
			wm[s]--
		} else {
			extra = append(extra, s)
		}
	}
	for s, n := range wm {
		for i := 0; i < n; i++ {
			missing = append(missing, s)
		}
	}
	sort.Strings(missing)
	if len(extra) == 0 && len(missing) == 0 {
		return ""
	}
	clip := func(x []string) []string {
		if len(x) > 6 {
			return append(x[:6:6], fmt.Sprintf("… %d more", len(x)-6))
		}
		return x
	}
	return fmt.Sprintf("%d rows expected, %d returned\n missing: %s\n unexpected: %s", len(want), len(got), strings.Join(clip(missing), "\n          "), strings.Join(clip(extra), "\n          "))
}

// checkServices exercises interface listing, per-interface summaries and a full query as the
// reader process and compares them with the store the reader sees. Every failing clause is handed
// to report; a non-nil return of report stops the checking.
func (wd *View) CheckServices(seen *model.Store, mayExtraIface string, withQuery bool, report func(clause, detail string) *sim.Violation) *sim.Violation {
	ifs, err := Interfaces(wd.Path)
	if err != nil {
		return report("interfaces-fail", err.Error())
	}
	wantIfs := seen.IfaceNames()
	got := map[string]bool{}
	for _, i := range ifs {
		got[i] = true
	}
	for _, i := range wantIfs {
		if !got[i] {
			if v := report("interfaces-disagree", fmt.Sprintf("interface %s has data but is not listed (%v)", i, ifs)); v != nil {
				return v
			}
		}
		delete(got, i)
	}
	for _, i := range sim.SortedKeys(got) {
		if i != mayExtraIface {
			if v := report("interfaces-disagree", fmt.Sprintf("listed interface %q holds no data (listed %v, with data %v)", i, ifs, wantIfs)); v != nil {
				return v
			}
		}
	}
	const lo, hi = int64(1), int64(4102444800)
	for _, iface := range ifs {
		md, err := Listing(wd.Path, iface, lo, hi)
		if err != nil {
			if v := report("listing-fails", fmt.Sprintf("summary of interface %s: %v", iface, err)); v != nil {
				return v
			}
			continue
		}
		var t model.Traffic
		var c model.Counters
		for _, d := range seen.Days(iface) {
			dt, dc := seen.Ifaces[iface][d].Totals()
			t.V4 += dt.V4
			t.V6 += dt.V6
			t.Drops += dt.Drops
			c.Add(dc)
		}
		gt := model.Traffic{V4: md.Traffic.NumV4Entries, V6: md.Traffic.NumV6Entries, Drops: md.Traffic.NumDrops}
		gc := model.Counters{BR: md.Counts.BytesRcvd, BS: md.Counts.BytesSent, PR: md.Counts.PacketsRcvd, PS: md.Counts.PacketsSent}
		if gt != t || gc != c {
			if v := report("listing-disagrees", fmt.Sprintf("summary of interface %s: %+v %+v, stored blocks sum to %+v %+v", iface, gt, gc, t, c)); v != nil {
				return v
			}
		}
	}
	if withQuery && len(ifs) > 0 {
		res, err := Query(context.Background(), wd.Path, FullArgs("any", lo, hi))
		if err != nil {
			return report("query-fails", err.Error())
		}
		if d := DiffRows(ExpectedRows(seen, lo, hi), RowsCanon(res.Rows)); d != "" {
			return report("query-disagrees", d)
		}
	}
	return nil
}
