// Package dbcheck reads a goDB through goProbe's real reader, listing and query code and compares
// what it finds with the reference model. It is compiled with the simfs overlay, so every read
// goes through the simulated disk.
package dbcheck

import (
	"bytes"
	"context"
	"fmt"
	"sort"
	"strings"
	"time"

	"github.com/els0r/goProbe/v4/pkg/goDB"
	"github.com/els0r/goProbe/v4/pkg/goDB/engine"
	"github.com/els0r/goProbe/v4/pkg/goDB/info"
	"github.com/els0r/goProbe/v4/pkg/goDB/storage/gpfile"
	"github.com/els0r/goProbe/v4/pkg/query"
	"github.com/els0r/goProbe/v4/pkg/results"
	"github.com/els0r/goProbe/v4/pkg/types"
	"github.com/fako1024/gotools/concurrency"

	"verif/model"
	"verif/simfs"
)

// BlockContent is one block as read back.
type BlockContent struct {
	TS      int64
	Cols    [8][]byte
	Traffic model.Traffic
	Enc     [8]string
}

// DayContent is one day directory as read back.
type DayContent struct {
	DirName     string
	Blocks      []BlockContent
	MetaTraffic model.Traffic  // day totals from .blockmeta
	MetaCounts  model.Counters // day totals from .blockmeta
	HasSuffix   bool
	SufTraffic  model.Traffic // day totals from the directory-name suffix
	SufCounts   model.Counters
}

// DayDirNames returns the names of the directories of (iface, day) found below the month
// directory (inspection only: not an operation of any simulated process).
func DayDirNames(f *simfs.FS, tree, dbRel, iface string, day int64) []string {
	t := time.Unix(day, 0).UTC()
	month := fmt.Sprintf("%s/%s/%d/%02d", dbRel, iface, t.Year(), int(t.Month()))
	prefix := fmt.Sprint(day)
	var out []string
	for _, n := range f.Dirs(tree, month) {
		if strings.HasPrefix(n, prefix) {
			out = append(out, n)
		}
	}
	return out
}

// AllDayDirs lists (iface -> day -> dir names) for everything that looks like a day directory.
func AllDayDirs(f *simfs.FS, tree, dbRel string) map[string]map[int64][]string {
	out := map[string]map[int64][]string{}
	for _, iface := range f.Dirs(tree, dbRel) {
		for _, y := range f.Dirs(tree, dbRel+"/"+iface) {
			for _, m := range f.Dirs(tree, dbRel+"/"+iface+"/"+y) {
				for _, d := range f.Dirs(tree, dbRel+"/"+iface+"/"+y+"/"+m) {
					ts, _, err := gpfile.ExtractTimestampMetadataSuffix(d)
					if err != nil {
						continue
					}
					if out[iface] == nil {
						out[iface] = map[int64][]string{}
					}
					out[iface][ts] = append(out[iface][ts], d)
				}
			}
		}
	}
	return out
}

// ReadDay opens a day through gpfile's reader and reads every column of every block.
// mode: 0 default reader, 1 read-all (MemFile) reader; order: 0 sequential, 1 reverse.
func ReadDay(ifacePath string, day int64, dirName string, mode, order int) (dc *DayContent, err error) {
	_, suffix, perr := gpfile.ExtractTimestampMetadataSuffix(dirName)
	if perr != nil {
		return nil, perr
	}
	var opts []gpfile.Option
	var pool concurrency.MemPoolGCable
	if mode == 1 {
		pool = concurrency.NewMemPool(int(types.ColIdxCount))
		opts = append(opts, gpfile.WithReadAll(pool))
		defer pool.Clear()
	}
	d := gpfile.NewDirReader(ifacePath, day, suffix, opts...)
	dc = &DayContent{DirName: dirName}
	if d.Metadata != nil {
		dc.HasSuffix = true
		dc.SufTraffic = model.Traffic{V4: d.Metadata.Traffic.NumV4Entries, V6: d.Metadata.Traffic.NumV6Entries, Drops: d.Metadata.Traffic.NumDrops}
		dc.SufCounts = model.Counters{BR: d.Metadata.Counts.BytesRcvd, BS: d.Metadata.Counts.BytesSent, PR: d.Metadata.Counts.PacketsRcvd, PS: d.Metadata.Counts.PacketsSent}
	}
	if err := d.Open(); err != nil {
		return nil, fmt.Errorf("open: %w", err)
	}
	defer func() {
		if cerr := d.Close(); cerr != nil && err == nil {
			err = fmt.Errorf("close: %w", cerr)
		}
	}()
	dc.MetaTraffic = model.Traffic{V4: d.Metadata.Traffic.NumV4Entries, V6: d.Metadata.Traffic.NumV6Entries, Drops: d.Metadata.Traffic.NumDrops}
	dc.MetaCounts = model.Counters{BR: d.Metadata.Counts.BytesRcvd, BS: d.Metadata.Counts.BytesSent, PR: d.Metadata.Counts.PacketsRcvd, PS: d.Metadata.Counts.PacketsSent}
	n := d.NBlocks()
	dc.Blocks = make([]BlockContent, n)
	for c := 0; c < int(types.ColIdxCount); c++ {
		if len(d.BlockMetadata[c].BlockList) != n {
			return nil, fmt.Errorf("column %d lists %d blocks, column 0 lists %d", c, len(d.BlockMetadata[c].BlockList), n)
		}
	}
	if len(d.BlockTraffic) != n {
		return nil, fmt.Errorf("%d traffic entries for %d blocks", len(d.BlockTraffic), n)
	}
	idx := make([]int, n)
	for i := range idx {
		if order == 1 {
			idx[i] = n - 1 - i
		} else {
			idx[i] = i
		}
	}
	if order == 2 && n > 0 {
		// zigzag: start in the middle, continue sequentially, jump back to the first block, read
		// it twice, then sequentially again (seek / no-seek transitions of the reader in every order)
		idx = idx[:0]
		for i := n / 2; i < n; i++ {
			idx = append(idx, i)
		}
		idx = append(idx, 0, 0)
		for i := 1; i < n; i++ {
			idx = append(idx, i)
		}
	}
	for _, i := range idx {
		bc := &dc.Blocks[i]
		bc.TS = d.BlockMetadata[0].BlockList[i].Timestamp
		bc.Traffic = model.Traffic{V4: d.BlockTraffic[i].NumV4Entries, V6: d.BlockTraffic[i].NumV6Entries, Drops: d.BlockTraffic[i].NumDrops}
		for c := 0; c < int(types.ColIdxCount); c++ {
			if ts := d.BlockMetadata[c].BlockList[i].Timestamp; ts != bc.TS {
				return nil, fmt.Errorf("block %d: column %d has timestamp %d, column 0 has %d", i, c, ts, bc.TS)
			}
			data, rerr := d.ReadBlockAtIndex(types.ColumnIndex(c), i)
			if rerr != nil {
				return nil, fmt.Errorf("read block %d (ts %d) column %s: %w", i, bc.TS, types.ColumnFileNames[c], rerr)
			}
			if bc.Cols[c] != nil && !bytes.Equal(bc.Cols[c], data) {
				return nil, fmt.Errorf("block %d (ts %d) column %s: read twice, different bytes returned", i, bc.TS, types.ColumnFileNames[c])
			}
			bc.Cols[c] = append([]byte{}, data...)
			bc.Enc[c] = d.BlockMetadata[c].BlockList[i].EncoderType.String()
		}
	}
	return dc, nil
}

// BlockExtents returns, per column file name, the (offset, length) of every stored block of a day
// as its metadata declares them (used to place stored-byte damage at structurally interesting
// positions: the first bytes of a block).
func BlockExtents(ifacePath string, day int64, dirName string) (map[string][][2]int, error) {
	_, suffix, perr := gpfile.ExtractTimestampMetadataSuffix(dirName)
	if perr != nil {
		return nil, perr
	}
	d := gpfile.NewDirReader(ifacePath, day, suffix)
	if err := d.Open(); err != nil {
		return nil, err
	}
	defer d.Close()
	out := map[string][][2]int{}
	for c := 0; c < int(types.ColIdxCount); c++ {
		for _, b := range d.BlockMetadata[c].BlockList {
			out[types.ColumnFileNames[c]+".gpf"] = append(out[types.ColumnFileNames[c]+".gpf"], [2]int{int(b.Offset), int(b.Len)})
		}
	}
	return out, nil
}

// CompareDay compares a day read back with the model day. It returns "" when they agree.
func CompareDay(want *model.Day, got *DayContent) string {
	if len(got.Blocks) != len(want.Blocks) {
		var a, b []int64
		for _, x := range want.Blocks {
			a = append(a, x.TS)
		}
		for _, x := range got.Blocks {
			b = append(b, x.TS)
		}
		return fmt.Sprintf("block timestamps differ: written %v, read back %v", a, b)
	}
	for i, wb := range want.Blocks {
		gb := got.Blocks[i]
		if gb.TS != wb.TS {
			return fmt.Sprintf("block %d: written for timestamp %d, read back under %d", i, wb.TS, gb.TS)
		}
		if gb.Traffic != wb.Traffic {
			return fmt.Sprintf("block %d (ts %d): traffic summary written %+v, read back %+v", i, wb.TS, wb.Traffic, gb.Traffic)
		}
		if wb.Raw != nil {
			if c, ok := model.SameRaw(*wb.Raw, gb.Cols); !ok {
				return fmt.Sprintf("block %d (ts %d) column %s: %d bytes written, %d bytes read back, contents differ (encoder on disk: %s)",
					i, wb.TS, types.ColumnFileNames[c], len(wb.Raw[c]), len(gb.Cols[c]), gb.Enc[c])
			}
			continue
		}
		flows, err := model.DecodeColumns(gb.Cols, gb.Traffic.V4, gb.Traffic.V6)
		if err != nil {
			return fmt.Sprintf("block %d (ts %d): %v", i, wb.TS, err)
		}
		if a, b := model.CanonFlows(wb.Flows), model.CanonFlows(flows); a != b {
			return fmt.Sprintf("block %d (ts %d): flows differ\nwritten:\n%s\nread back:\n%s", i, wb.TS, clip(a), clip(b))
		}
	}
	wt, wc := want.Totals()
	if got.MetaTraffic != wt || got.MetaCounts != wc {
		return fmt.Sprintf("day totals in metadata %+v %+v, sum of written blocks %+v %+v", got.MetaTraffic, got.MetaCounts, wt, wc)
	}
	return ""
}

func clip(s string) string {
	if len(s) > 1500 {
		return s[:1500] + "…"
	}
	return s
}

// Interfaces calls the real interface listing.
func Interfaces(dbPath string) ([]string, error) { return info.GetInterfaces(dbPath) }

// Listing calls the real per-interface summary for a time range.
func Listing(dbPath, iface string, first, last int64) (*goDB.InterfaceMetadata, error) {
	wm, err := goDB.NewDBWorkManager(goDB.NewMetadataQuery(), dbPath, iface, 1)
	if err != nil {
		return nil, err
	}
	defer wm.Close()
	return wm.ReadMetadata(first, last)
}

// Query runs a query through the real engine.
func Query(ctx context.Context, dbPath string, a *query.Args, opts ...engine.RunnerOption) (*results.Result, error) {
	return engine.NewQueryRunner(dbPath, opts...).Run(ctx, a)
}

// FullArgs builds arguments for a query with all attributes and time/iface labels over a range.
func FullArgs(ifaces string, first, last int64) *query.Args {
	a := query.NewArgs("sip,dip,dport,proto,time,iface", ifaces)
	a.First = fmt.Sprint(first)
	a.Last = fmt.Sprint(last)
	a.NumResults = 1 << 40
	a.Format = "json"
	a.MaxMemPct = 99
	return a
}

// RowsCanon renders result rows canonically (sorted), ignoring host labels.
func RowsCanon(rows results.Rows) []string {
	out := make([]string, 0, len(rows))
	for _, r := range rows {
		ts := int64(0)
		if !r.Labels.Timestamp.IsZero() {
			ts = r.Labels.Timestamp.Unix()
		}
		out = append(out, fmt.Sprintf("%d|%s|%s|%s|%d|%d|br=%d bs=%d pr=%d ps=%d", ts, r.Labels.Iface, addr(r.Attributes.SrcIP.String()), addr(r.Attributes.DstIP.String()),
			r.Attributes.DstPort, r.Attributes.IPProto, r.Counters.BytesRcvd, r.Counters.BytesSent, r.Counters.PacketsRcvd, r.Counters.PacketsSent))
	}
	sort.Strings(out)
	return out
}

func addr(s string) string {
	if s == "invalid IP" {
		return "-"
	}
	return s
}
