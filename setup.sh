#!/bin/sh
# Build the check driver from files on disk only (offline).
set -e
cd "$(dirname "$0")"
export GOFLAGS=-mod=mod GOPROXY=off GOSUMDB=off GOTOOLCHAIN=local CARGO_NET_OFFLINE=true
GO=${VERIF_GO:-go1.26.8}
cat /repo/go.sum /repo/go.work.sum > go.sum 2>/dev/null || true
$GO build -o check ./cmd/check
./check selftest --tier quick
