package capture

import (
	"fmt"
	"regexp"
	"sort"
	"strings"
	"time"

	"github.com/els0r/goProbe/v4/cmd/goProbe/config"
	gpcapture "github.com/els0r/goProbe/v4/pkg/capture"
	"github.com/fako1024/gotools/link"
	"golang.org/x/net/bpf"

	"verif/sim"
)

// universe: the links of the simulated host (six, so that one update can reconfigure three
// interfaces, remove one and add one)
var universe = []string{"eth0", "eth1", "eth2", "wlan0", "tun5", "br0"}

func capCfg(t *sim.Tape) config.CaptureConfig {
	c := config.DefaultCaptureConfig()
	switch t.Draw(6) {
	case 1:
		c.Promisc = true
	case 2:
		c.IgnoreVLANs = true
	case 3:
		c.RingBuffer = &config.RingBufferConfig{BlockSize: 2 << 20, NumBlocks: 2}
	case 4:
		c.ExtraBPFFilters = []bpf.RawInstruction{{Op: 0x6, K: 0x40000}}
	case 5:
		c.RingBuffer = &config.RingBufferConfig{BlockSize: 1 << 20, NumBlocks: 8}
	}
	return c
}

func cfgString(c config.CaptureConfig) string {
	rb := "nil"
	if c.RingBuffer != nil {
		rb = fmt.Sprintf("%dx%d", c.RingBuffer.BlockSize, c.RingBuffer.NumBlocks)
	}
	return fmt.Sprintf("{promisc=%v vlans=%v ring=%s bpf=%d disable=%v}", c.Promisc, c.IgnoreVLANs, rb, len(c.ExtraBPFFilters), c.Disable)
}

// genConfig draws an interface configuration over the universe: explicit names, regular
// expressions (possibly overlapping, with different settings), explicit disables, or
// auto-detection with excludes.
func genConfig(t *sim.Tape) (*config.Config, string) {
	cfg := &config.Config{DB: config.DBConfig{Path: wdb, EncoderType: "lz4"}, Interfaces: config.Ifaces{}}
	switch t.Draw(5) {
	case 0: // auto-detection
		cfg.AutoDetection.Enabled = true
		for _, e := range [][]string{nil, {"tun5"}, {"/^eth/"}, {"wlan0", "/tun.*/"}}[t.Draw(4)] {
			cfg.AutoDetection.Exclude = append(cfg.AutoDetection.Exclude, e)
		}
		return cfg, fmt.Sprintf("autodetect exclude=%v", cfg.AutoDetection.Exclude)
	case 1: // regular expressions
		pats := []string{"/^eth[0-9]$/", "/0$/", "/^(eth|wlan)/", "/^tun/", "/.*/", "/^(br|tun)/"}
		n := 1 + t.Draw(2)
		for i := 0; i < n; i++ {
			cfg.Interfaces[pats[t.Draw(len(pats))]] = capCfg(t)
		}
		if t.Draw(2) == 0 {
			cfg.Interfaces[universe[t.Draw(len(universe))]] = capCfg(t)
		}
		if t.Draw(3) == 0 {
			cfg.Interfaces[universe[t.Draw(len(universe))]] = config.CaptureConfig{Disable: true}
		}
	default: // explicit names
		n := 1 + t.Draw(len(universe))
		for i := 0; i < n; i++ {
			cfg.Interfaces[universe[t.Draw(len(universe))]] = capCfg(t)
		}
		if t.Draw(5) == 0 {
			cfg.Interfaces[universe[t.Draw(len(universe))]] = config.CaptureConfig{Disable: true}
		}
	}
	var ks []string
	for k, v := range cfg.Interfaces {
		ks = append(ks, k+cfgString(v))
	}
	sort.Strings(ks)
	return cfg, strings.Join(ks, " ")
}

// selection is the model: which interfaces the configuration selects and with which settings.
// ambiguous lists interfaces matched by several patterns with different settings (any of the
// candidates is acceptable as long as it is always the same one).
func selection(cfg *config.Config) (sel map[string][]config.CaptureConfig) {
	sel = map[string][]config.CaptureConfig{}
	if cfg.AutoDetection.Enabled {
		for _, l := range universe {
			excluded := false
			for _, e := range cfg.AutoDetection.Exclude {
				if config.IsRegexpInterfaceMatcher(e) {
					if regexp.MustCompile(e[1 : len(e)-1]).MatchString(l) {
						excluded = true
					}
				} else if e == l {
					excluded = true
				}
			}
			if !excluded {
				sel[l] = []config.CaptureConfig{config.DefaultCaptureConfig()}
			}
		}
		return sel
	}
	for _, l := range universe {
		if c, ok := cfg.Interfaces[l]; ok {
			if !c.Disable {
				sel[l] = []config.CaptureConfig{c}
			}
			continue
		}
		for k, c := range cfg.Interfaces {
			if config.IsRegexpInterfaceMatcher(k) && regexp.MustCompile(k[1:len(k)-1]).MatchString(l) && !c.Disable {
				sel[l] = append(sel[l], c)
			}
		}
	}
	return sel
}

func sameCfg(a, b config.CaptureConfig) bool {
	if a.Promisc != b.Promisc || a.IgnoreVLANs != b.IgnoreVLANs || a.Disable != b.Disable || len(a.ExtraBPFFilters) != len(b.ExtraBPFFilters) {
		return false
	}
	if (a.RingBuffer == nil) != (b.RingBuffer == nil) {
		return false
	}
	if a.RingBuffer != nil && *a.RingBuffer != *b.RingBuffer {
		return false
	}
	for i := range a.ExtraBPFFilters {
		if a.ExtraBPFFilters[i] != b.ExtraBPFFilters[i] {
			return false
		}
	}
	return true
}

// C27: a history of configuration updates with traffic and clock steps in between.
func c27(r *sim.R) *sim.Violation {
	t := r.T
	w := newCWorld(r)
	defer w.install()()
	restoreLinks := gpcapture.VerifSetHostLinks(func(...string) (link.Links, error) {
		var ls link.Links
		for _, n := range universe {
			ls = append(ls, &link.Link{Name: n})
		}
		return ls, nil
	})
	defer restoreLinks()
	nUpd := 2 + t.Draw(5)
	type step struct {
		cfg     *config.Config
		descr   string
		advance time.Duration
		pkts    int
		noOpen  string // interface whose capture source cannot be opened during this update ("" = none)
	}
	var steps []step
	for i := 0; i < nUpd; i++ {
		c, d := genConfig(t)
		st := step{cfg: c, descr: d, pkts: t.Draw(6)}
		st.advance = []time.Duration{0, 0, 400 * time.Millisecond, 2 * time.Second, 299 * time.Second, 301 * time.Second}[t.Draw(6)]
		if t.Chance(1, 4) {
			st.noOpen = universe[t.Draw(len(universe))]
		}
		steps = append(steps, st)
	}
	conv := []conversation{genConversation(t, true), genConversation(t, true)}
	done := make(chan struct{}, 1)
	var viol *sim.Violation
	var mgr *gpcapture.Manager
	injected := map[string][]pkt{} // per interface: packets put on the wire of a running capture
	tag := 0
	go func() {
		defer func() { done <- struct{}{} }()
		w.register("ctl")
		for i, st := range steps {
			r.Event("update %d: %s (after %v, %d packets per running interface, source that cannot be opened: %q)", i, st.descr, st.advance, st.pkts, st.noOpen)
			var err error
			w.mu.Lock()
			w.openFault, w.openFailed = map[string]bool{}, map[string]bool{}
			if st.noOpen != "" {
				w.openFault[st.noOpen] = true
			}
			w.mu.Unlock()
			if i == 0 {
				mgr, err = gpcapture.InitManager(w.ctx, st.cfg, gpcapture.WithSourceInitFn(w.sourceInit))
			} else {
				// traffic on every running interface, then the clock step, then the update
				for _, iface := range universe {
					src := w.current(iface)
					if src == nil || src.Closed {
						continue
					}
					for k := 0; k < st.pkts; k++ {
						p := conv[k%2].packet(t, k, tag)
						p.kind = "ok"
						tag++
						w.yield("wire inject " + iface)
						src.Inject(p.wire())
						injected[iface] = append(injected[iface], p)
					}
					for src.Pending() > 0 && w.ctx.Err() == nil && !src.Closed {
						time.Sleep(10 * time.Millisecond)
					}
				}
				if st.advance > 0 {
					time.Sleep(st.advance)
				}
				w.yield("ctl update")
				_, _, _, err = mgr.Update(w.ctx, st.cfg)
			}
			if err != nil {
				viol = r.Report(&sim.Violation{Clause: "update-fails", Signature: "valid configuration", Detail: fmt.Sprintf("update %d (%s): %v", i, st.descr, err)})
				if viol != nil {
					return
				}
				continue
			}
			w.mu.Lock()
			w.openFault = map[string]bool{}
			failed := w.openFailed
			w.mu.Unlock()
			if v := w.checkRunning(r, mgr, st.cfg, st.descr, i, failed); v != nil {
				viol = v
				return
			}
			if len(failed) > 0 {
				// the fault is over: applying the same configuration again (periodic reload) must
				// bring up the interfaces whose source could not be opened before
				r.Probe("source_open_failed_then_configuration_reapplied")
				time.Sleep(2 * time.Second)
				w.yield("ctl update")
				if _, _, _, err := mgr.Update(w.ctx, st.cfg); err != nil {
					viol = r.Report(&sim.Violation{Clause: "update-fails", Signature: "valid configuration", Detail: fmt.Sprintf("update %d (%s) applied again: %v", i, st.descr, err)})
					if viol != nil {
						return
					}
					continue
				}
				if v := w.checkRunning(r, mgr, st.cfg, st.descr+" [applied again after the capture source of "+st.noOpen+" could be opened]", i, nil); v != nil {
					v.Signature = "after the capture source could be opened again"
					viol = v
					return
				}
			}
			// applying the same configuration again must not change anything (overlapping patterns
			// with different settings must resolve the same way every time)
			sel := selection(st.cfg)
			amb := false
			for _, cs := range sel {
				for _, c := range cs[1:] {
					if !sameCfg(c, cs[0]) {
						amb = true
					}
				}
			}
			if amb {
				r.Probe("overlapping_patterns_with_different_settings")
				before := w.startedConfigs()
				for k := 0; k < 16; k++ {
					time.Sleep(2 * time.Second) // keep the final write-outs of restarted captures apart
					if _, _, _, err := mgr.Update(w.ctx, st.cfg); err != nil {
						break
					}
				}
				after := w.startedConfigs()
				if before != after {
					viol = r.Report(&sim.Violation{Clause: "configuration-choice-not-deterministic-runtime-random", Signature: "overlapping patterns with different settings",
						Detail: fmt.Sprintf("update %d (%s): applying the same configuration 16 more times restarted captures with other settings\nbefore: %s\nafter:  %s", i, st.descr, before, after)})
					if viol != nil {
						return
					}
				}
			}
		}
		// shut down: everything captured must be written out before the captures stop
		time.Sleep(3 * time.Second)
		w.yield("ctl close")
		mgr.Close(w.ctx)
	}()
	stall := w.run(done, 1, 40000)
	if stall != "" {
		w.teardown(mgr)
		return r.Report(&sim.Violation{Clause: "update-stalls", Signature: "sequence of updates", Detail: stall})
	}
	w.teardown(mgr)
	r.Nontriv = true
	if viol != nil {
		return viol
	}
	// every packet read from an interface must be in the database
	if fw := sink.matching("failed to perform writeout"); len(fw) > 0 {
		if v := r.Report(&sim.Violation{Clause: "writeout-failed", Signature: "write-out on reconfiguration collides with another block", Detail: strings.Join(fw, "\n")}); v != nil {
			return v
		}
		return nil // the database lacks that block (known finding): conservation cannot hold
	}
	for _, iface := range universe {
		var delivered []pkt
		byTag := map[int]pkt{}
		for _, p := range injected[iface] {
			byTag[p.tag] = p
		}
		for _, s := range w.sources[iface] {
			for _, c := range s.Consumed {
				delivered = append(delivered, byTag[c.Tag])
			}
		}
		if len(delivered) == 0 {
			continue
		}
		recs, byBlock, err := w.dbRecords(iface)
		if err != nil {
			return r.Report(&sim.Violation{Clause: "database-unreadable", Signature: "after reconfigurations", Detail: err.Error()})
		}
		if v := checkConservation(r, delivered, recs, byBlock, sink.count("local packet buffer overflow"), "C27"); v != nil {
			var blocks []string
			for ts, rs := range byBlock {
				blocks = append(blocks, fmt.Sprintf("%d:%d", ts, len(rs)))
			}
			sort.Strings(blocks)
			v.Detail = fmt.Sprintf("interface %s (captures started: %d; blocks written ts:records %v; log: %v): %s", iface, len(w.sources[iface]), blocks, sink.matching(""), v.Detail)
			v.Signature = "traffic captured before a removal or reconfiguration"
			return v
		}
	}
	return nil
}

// startedConfigs renders, per interface, the settings of the capture that is currently running.
func (w *cworld) startedConfigs() string {
	w.mu.Lock()
	defer w.mu.Unlock()
	var out []string
	for _, iface := range universe {
		ss := w.sources[iface]
		if len(ss) == 0 || ss[len(ss)-1].Closed {
			continue
		}
		out = append(out, iface+cfgString(w.cfgs[iface][len(ss)-1]))
	}
	return strings.Join(out, " ")
}

// checkRunning compares the running captures with the selection of the latest configuration.
func (w *cworld) checkRunning(r *sim.R, mgr *gpcapture.Manager, cfg *config.Config, descr string, i int, openFailed map[string]bool) *sim.Violation {
	sel := selection(cfg)
	status := mgr.Status(w.ctx)
	w.mu.Lock()
	defer w.mu.Unlock()
	for _, iface := range universe {
		ss := w.sources[iface]
		running := len(ss) > 0 && !ss[len(ss)-1].Closed
		_, inStatus := status[iface]
		want, selected := sel[iface]
		switch {
		case selected && !running && openFailed[iface]:
			// its source could not be opened during this update (injected fault)
		case selected && (!running || !inStatus):
			return r.Report(&sim.Violation{Clause: "selected-interface-not-captured", Signature: "after update",
				Detail: fmt.Sprintf("update %d (%s): %s is selected but not captured (source open: %v, in status: %v)", i, descr, iface, running, inStatus)})
		case !selected && (running || inStatus):
			what := "not selected"
			if c, ok := cfg.Interfaces[iface]; ok && c.Disable {
				what = "explicitly disabled"
			}
			return r.Report(&sim.Violation{Clause: "unselected-interface-captured", Signature: what,
				Detail: fmt.Sprintf("update %d (%s): %s is %s by the configuration but is being captured (source open: %v, in status: %v)", i, descr, iface, what, running, inStatus)})
		case selected:
			got := w.cfgs[iface][len(ss)-1]
			ok := false
			for _, c := range want {
				if sameCfg(c, got) {
					ok = true
				}
			}
			if !ok {
				var diff []string
				if got.Promisc != want[0].Promisc {
					diff = append(diff, "promisc")
				}
				if got.IgnoreVLANs != want[0].IgnoreVLANs {
					diff = append(diff, "ignore_vlans")
				}
				if len(got.ExtraBPFFilters) != len(want[0].ExtraBPFFilters) {
					diff = append(diff, "extra_bpf_filters")
				}
				if got.RingBuffer != nil && want[0].RingBuffer != nil && *got.RingBuffer != *want[0].RingBuffer {
					diff = append(diff, "ring_buffer")
				}
				return r.Report(&sim.Violation{Clause: "capture-runs-with-stale-settings", Signature: "changed: " + strings.Join(diff, ","),
					Detail: fmt.Sprintf("update %d (%s): %s runs with %s, the configuration assigns %s", i, descr, iface, cfgString(got), cfgString(want[0]))})
			}
		}
	}
	return nil
}
