package capture

import "verif/h"

var realCap = []string{"capture.Manager (InitManager, Update, Status, GetFlowMaps, ScheduleWriteouts, rotate)", "capture.Capture (packet loop, three-point lock protocol, bufferPackets)", "capture.LocalBuffer", "capture.FlowLog / ParsePacketV4/V6 / direction classification", "gotools ThreePointLock, MemPoolLimitUnique", "writeout.GoDBHandler", "goDB.DBWriter, gpfile", "Go runtime timers under the fake clock"}
var stubCap = []string{"packet source (verif/simnet.Source: no AF_PACKET ring, no BPF, no VLAN handling)", "disk (verif/simfs)", "host link list (guarded hook)", "sync.Mutex/RWMutex of pkg/capture and pkg/goprobe/writeout replaced by verif/simsync (schedulable, FIFO)", "Prometheus metrics (nil), syslog (off)"}

// Props are the properties served by the capture-sim engine.
var Props = []*h.Prop{
	{ID: "C20", Run: c20, Bubble: true,
		Rule:        "one evaluation = one run of the real capture manager on one interface: 1-6 generated conversations (both IP versions, TCP with flags, UDP, ICMP/ICMPv6, ESP, GRE, both directions, common and ephemeral ports, fragments, truncated headers, non-IP frames), packets in 1-5 bursts at drawn simulated instants (some exactly on rotation ticks), rotations from the real ticker under the fake clock, 0-4 status calls / live snapshots; the seeded scheduler interleaves packet delivery, the capture loop, lock/unlock, rotation and write-out at every seam; non-trivial = every run; distinct = distinct event-log hash including scheduling decisions",
		Real:        realCap,
		Stub:        stubCap,
		Assumptions: []string{"orientation of non-decisive conversations is not predicted: conversations sharing candidate stored keys are compared class-wise", "the Processed/ParsingErrors counter equation of the design is not checked (rotation-internal status read-outs are not observable without metrics)"}},
	{ID: "C21", Run: c21, Bubble: true,
		Rule:        "as C20 with the local buffer limit drawn from {4096, 8192, 12288, 100000, 64 MiB} and bursts of 150-750 packets so that pause windows contain many packets, the buffer grows and overflows; loss is accepted only up to the number of local buffer overflows reported in the log; non-trivial = every run; distinct = distinct event-log hash including scheduling decisions",
		Real:        realCap,
		Stub:        stubCap,
		Assumptions: []string{"frames that are neither IPv4 nor IPv6 have no flow and are excluded", "with an overflow the lost packets are checked by count and by per-class upper bounds, not attributed individually"}},
	{ID: "C23", Run: c21, Bubble: true,
		Rule:        "the local packet buffer is exercised in situ by the C21 scenario (production call pattern: adds while paused, drain-all, reset): pause-window length (schedule) and size limit (knob: 4096, 4097, 4100, 6000, 8192, 12288, 100000, 64 MiB) determine the add/grow/refuse/drain sequence; drained items must reproduce key, IP version, direction, TCP flags / ICMP type (orientation), parse status and size (class-wise conservation of the four counters), and an overflow is accepted only if a pause window received packets worth at least the limit; non-trivial = every run; distinct = distinct event-log hash including scheduling decisions",
		Real:        realCap,
		Stub:        stubCap,
		Assumptions: []string{"only the production call pattern of the buffer is explored; arbitrary API sequences on a bare buffer are input-space testing and not claimed", "insertion order is observable only through flow orientation (first packet of a conversation decides)"}},
}
