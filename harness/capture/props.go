package capture

import "verif/h"

var realCap = []string{"capture.Manager (InitManager, Update, Status, GetFlowMaps, ScheduleWriteouts, rotate)", "capture.Capture (packet loop, three-point lock protocol, bufferPackets)", "capture.LocalBuffer", "capture.FlowLog / ParsePacketV4/V6 / direction classification", "gotools ThreePointLock, MemPoolLimitUnique", "writeout.GoDBHandler", "goDB.DBWriter, gpfile", "Go runtime timers under the fake clock"}
var stubCap = []string{"packet source (verif/simnet.Source: no AF_PACKET ring, no BPF, no VLAN handling)", "disk (verif/simfs)", "host link list (guarded hook)", "sync.Mutex/RWMutex of pkg/capture and pkg/goprobe/writeout replaced by verif/simsync (schedulable, FIFO)", "Prometheus metrics (nil), syslog (off)"}

// Props are the properties served by the capture-sim engine.
var Props = []*h.Prop{
	{ID: "C20", Run: c20, Bubble: true,
		Rule:        "one evaluation = one run of the real capture manager on one interface: 1-6 generated conversations (both IP versions, TCP with flags, UDP, ICMP/ICMPv6, ESP, GRE, both directions, common and ephemeral ports, fragments, truncated headers, non-IP frames), packets in 1-5 bursts at drawn simulated instants (some exactly on rotation ticks), rotations from the real ticker under the fake clock, 0-4 status calls / live snapshots; the seeded scheduler interleaves packet delivery, the capture loop, lock/unlock, rotation and write-out at every seam; non-trivial = every run; distinct = distinct event-log hash including scheduling decisions",
		Real:        realCap,
		Stub:        stubCap,
		Assumptions: []string{"orientation of non-decisive conversations is not predicted: conversations sharing candidate stored keys are compared class-wise", "the Processed/ParsingErrors counter equation of the design is not checked (rotation-internal status read-outs are not observable without metrics)"}},
	{ID: "C21", Run: c21, Bubble: true,
		Rule:        "as C20 with the local buffer limit drawn from {4096, 8192, 12288, 100000, 64 MiB} and bursts of 150-750 packets so that pause windows contain many packets, the buffer grows and overflows; loss is accepted only up to the number of local buffer overflows reported in the log; non-trivial = every run; distinct = distinct event-log hash including scheduling decisions",
		Real:        realCap,
		Stub:        stubCap,
		Assumptions: []string{"frames that are neither IPv4 nor IPv6 have no flow and are excluded", "with an overflow the lost packets are checked by count and by per-class upper bounds, not attributed individually"}},
	{ID: "C23", Run: c23, Bubble: true,
		Rule:        "the local packet buffer is exercised in situ by the C21 scenario (production call pattern: adds while paused, drain-all, reset): pause-window length (schedule) and size limit (knob: 4096, 4097, 4100, 6000, 8192, 12288, 100000, 64 MiB) determine the add/grow/refuse/drain sequence; drained items must reproduce key, IP version, direction, TCP flags / ICMP type (orientation), parse status and size (class-wise conservation of the four counters), and an overflow is accepted only if a pause window received packets worth at least the limit; one run in three drives the real LocalBuffer directly against a reference FIFO: 1-4 cycles of 0-550 inserts with all field values (both IP versions, every packet type and aux byte, parse statuses, 32-bit sizes), limits around the growth steps, in one cycle of two interleaved with partial drains, then a complete drain and a reset (clauses buffered-item-altered / -lost, phantom-item-drained, packet-refused-before-the-limit); non-trivial = every run; distinct = distinct event-log hash including scheduling decisions",
		Real:        realCap,
		Stub:        stubCap,
		Assumptions: []string{"two runs in three exercise the buffer in situ (production call pattern), one run in three drives the bare buffer against a reference FIFO (1-4 cycles of inserts with every field value, complete drain, reset; limits around the growth steps); a refusal of the bare buffer is only judged when less than half of the limit is in use by the most generous accounting (the footprint of an element is not part of the contract)", "insertion order is observable only through flow orientation (first packet of a conversation decides)"}},
	{ID: "C22", Run: c22, Bubble: true,
		Rule:        "one evaluation = one conversation (TCP handshake incl. ECN flag variants, ICMP echo / timestamp, ICMPv6 echo, TCP or UDP without handshake flags and ports drawn from the class boundaries 1, 22, 53, 80, 123, 443, 445, 500, 1023/1024, 2049, 8080, 32767/32768/32769, 40000, 50000, 60999, 65535; both IP versions; random in/out packet types) delivered to two interfaces of one real capture manager, request first on one, response first on the other, followed by 0-3 further packets; non-trivial = the documented heuristics are decisive for both first packets; distinct = distinct event-log hash",
		Real:        realCap,
		Stub:        stubCap,
		Assumptions: []string{"decisive = TCP SYN vs SYN/ACK, ICMP echo/timestamp request vs reply, or exactly the client port ephemeral (>= 32768); ports are sampled at class boundaries, not the exhaustive 2^32 pairs the property mentions", "non-decisive pairs are only required to end up in a single record"}},
	{ID: "C27", Run: c27, Bubble: true, RuntimeRandom: true,
		Rule:        "one evaluation = a history of 2-6 configuration updates over the interface universe {eth0, eth1, wlan0, tun5} (explicit names, explicit disables, overlapping regular expressions with different settings, auto-detection with excludes, changes of every CaptureConfig field) with 0-5 packets per running interface and a clock step of 0 s / 0.4 s / 2 s / 299 s / 301 s before each update, ending with a shutdown; after every update the running captures (sources open, Status) and their settings (guarded accessor) are compared with the selection model, ambiguous selections are re-applied 16 times, and at the end everything read from any interface must be in the database; non-trivial = every run; distinct = distinct event-log hash including scheduling decisions",
		Real:        realCap,
		Stub:        stubCap,
		Assumptions: []string{"which of two overlapping patterns wins is not demanded, only that it is always the same one; that clause depends on Go's map iteration order and is evaluated by 16 repetitions inside one run (replay retries it three times)", "interfaces are taken from the simulated host link list"}},
	{ID: "C29", Run: c29, Bubble: true,
		Rule:        "one evaluation = one capture scenario (one captured interface, or two to three plus - in half of those runs - an interface that exists only in the database; 2-4 packet batches of three conversations at simulated instants before and after rotations) with a generated live query (attribute subsets, interface label and interface subsets, condition trees, direction filters) after every batch, bracketed by two direct snapshots of the in-memory flows, compared with the reference aggregation over stored records plus in-memory flows; then the same scenario is run again without live queries and the final database contents are compared; non-trivial = at least one live query executed; distinct = distinct event-log hash including scheduling decisions",
		Real:        append([]string{"engine.QueryRunner with WithLiveData (runLiveQuery, QueryFilter, aggregation of live maps)"}, realCap...),
		Stub:        stubCap,
		Assumptions: []string{"live queries are generated without the time label (in-memory flows have no block timestamp yet)", "a live query that overlaps a rotation is skipped (its linearisation point is not observable)", "conditions with address literals of one family are excluded (C08 finding)"}},
}
