package capture

import (
	"fmt"
	"strings"
	"time"

	"github.com/els0r/goProbe/v4/cmd/goProbe/config"
	gpcapture "github.com/els0r/goProbe/v4/pkg/capture"

	"verif/model"
	"verif/sim"
)

var classPorts = []uint16{1, 22, 53, 80, 123, 443, 445, 500, 1023, 1024, 2049, 8080, 32767, 32768, 32769, 40000, 50000, 60999, 65535}

// C22: the same conversation is delivered to two interfaces of one capture manager, request
// first on one, response first on the other (further packets of the conversation follow in a drawn
// order). Whenever the documented heuristics are decisive for both first packets the stored
// orientation must be the same and must run from requester to responder.
func c22(r *sim.R) *sim.Violation {
	t := r.T
	w := newCWorld(r)
	defer w.install()()
	v4 := t.Draw(3) != 0
	// unicast hosts, some with host parts that look like broadcast or network addresses
	hosts := [][]byte{{10, 0, 0, 1}, {10, 0, 0, 2}, {192, 168, 1, 9}, {8, 8, 8, 8}, {10, 0, 3, 255}, {172, 16, 0, 0}, {100, 64, 255, 255}, {223, 255, 255, 254}}
	if !v4 {
		hosts = hostsV6[:3]
	}
	ai := t.Draw(len(hosts))
	a := hosts[ai]
	b := hosts[(ai+1+t.Draw(len(hosts)-1))%len(hosts)] // distinct from a, without a draw loop (a zero tape must terminate)
	// scenario kinds
	kind := []string{"tcp-handshake", "icmp-echo", "icmp-timestamp", "ports-tcp", "ports-udp"}[t.Draw(5)]
	if !v4 && kind == "icmp-timestamp" {
		kind = "icmp-echo"
	}
	req := pkt{v4: v4, sip: a, dip: b, kind: "ok", size: uint32(60 + t.Draw(1000)), out: t.Draw(2) == 0}
	rsp := pkt{v4: v4, sip: b, dip: a, kind: "ok", size: uint32(60 + t.Draw(1000)), out: !req.out}
	decisive := true
	sameOrder := true // the stored orientation must not depend on which packet is seen first
	switch kind {
	case "tcp-handshake":
		req.proto, rsp.proto = 6, 6
		req.sport, req.dport = sim.Pick(t, classPorts), sim.Pick(t, classPorts)
		if t.Bool() {
			req.sport, req.dport = uint16(t.Draw(65536)), uint16(t.Draw(65536)) // the handshake decides whatever the ports
		}
		req.aux = []byte{0x02, 0xc2}[t.Draw(2)]
		rsp.aux = []byte{0x12, 0x52}[t.Draw(2)]
	case "icmp-echo":
		req.proto, rsp.proto = 1, 1
		req.aux, rsp.aux = 8, 0
		if !v4 {
			req.proto, rsp.proto = 58, 58
			req.aux, rsp.aux = 0x80, 0x81
		}
	case "icmp-timestamp":
		req.proto, rsp.proto = 1, 1
		req.aux, rsp.aux = 13, 14
	default:
		req.proto = 6
		req.aux, rsp.aux = 0x10, 0x10 // no handshake flags: only the ports can decide
		if kind == "ports-udp" {
			req.proto = 17
			req.aux, rsp.aux = 0, 0
		}
		rsp.proto = req.proto
		req.sport, req.dport = sim.Pick(t, classPorts), sim.Pick(t, classPorts)
		switch t.Draw(4) {
		case 0:
			// any client port of the ephemeral range against any server port below it (the class
			// boundaries are covered by classPorts, the bulk of the 2^32 pairs by uniform draws)
			req.sport, req.dport = uint16(32768+t.Draw(32768)), uint16(1+t.Draw(32767))
		case 1:
			// both ports of one class (both ephemeral or both below): the heuristics order them
			base, span := 32768, 32768
			if t.Bool() {
				base, span = 1, 32767
			}
			req.sport, req.dport = uint16(base+t.Draw(span)), uint16(base+t.Draw(span))
		}
		// the requester is known to be the client only if exactly one side uses an ephemeral port
		// (>= 32768) and it is the client; with two ports of one class the heuristics still give
		// an answer (the smaller port is taken for the service), which must be the same whichever
		// packet comes first - unless the ports are equal, where there is nothing to go by
		decisive = req.sport >= 32768 && req.dport < 32768
		// (goProbe drops the client port of conversations with a "common" service port - 53, 80,
		// 443, 445, 8080 over TCP, 53 and 443 over UDP; between two such ports both are dropped
		// and the heuristics have nothing to go by either)
		common := map[uint16]bool{53: true, 443: true}
		if req.proto == 6 {
			common[80], common[445], common[8080] = true, true, true
		}
		sameOrder = req.sport != req.dport && !(common[req.sport] && common[req.dport])
	}
	rsp.sport, rsp.dport = req.dport, req.sport
	// follow-up packets of the same conversation
	var more []pkt
	for i, n := 0, t.Draw(4); i < n; i++ {
		p := req
		if t.Draw(2) == 0 {
			p = rsp
		}
		if p.proto == 6 {
			p.aux = 0x10
		}
		p.size = uint32(60 + t.Draw(1000))
		more = append(more, p)
	}
	r.Event("%s: request %s / response %s, decisive=%v, %d follow-up packets", kind, req, rsp, decisive, len(more))
	cfg := &config.Config{DB: config.DBConfig{Path: wdb, EncoderType: "lz4"}, Interfaces: config.Ifaces{"eth0": config.DefaultCaptureConfig(), "eth1": config.DefaultCaptureConfig()}}
	done := make(chan struct{}, 2)
	var initErr error
	var mgr *gpcapture.Manager
	live := map[string][]record{}
	go func() {
		defer func() { done <- struct{}{} }()
		w.register("ctl")
		mgr, initErr = gpcapture.InitManager(w.ctx, cfg, gpcapture.WithSourceInitFn(w.sourceInit))
		if initErr != nil {
			return
		}
		orders := map[string][]pkt{"eth0": append([]pkt{req, rsp}, more...), "eth1": append([]pkt{rsp, req}, more...)}
		for _, iface := range []string{"eth0", "eth1"} {
			for _, p := range orders[iface] {
				w.yield("wire inject " + iface)
				w.current(iface).Inject(p.wire())
				// one packet at a time: the arrival order is the dimension under test
				for w.current(iface).Pending() > 0 && w.ctx.Err() == nil {
					time.Sleep(10 * time.Millisecond)
				}
			}
		}
		time.Sleep(time.Second)
		for _, iface := range []string{"eth0", "eth1"} {
			live[iface] = liveFlows(w.ctx, mgr, iface)
		}
	}()
	stall := w.run(done, 1, 4000)
	if initErr != nil {
		w.teardown(mgr)
		return r.Report(&sim.Violation{Clause: "manager-fails-to-start", Signature: "two interfaces", Detail: initErr.Error()})
	}
	if stall != "" {
		w.teardown(mgr)
		return r.Report(&sim.Violation{Clause: "capture-stalls", Signature: "two packets", Detail: stall})
	}
	w.teardown(mgr)
	r.Nontriv = decisive || sameOrder
	orient := func(recs []record) string {
		var o []string
		for _, rec := range recs {
			o = append(o, rec.key[:strings.Index(rec.key, ":")+0])
		}
		return strings.Join(o, " + ")
	}
	o0, o1 := orient(live["eth0"]), orient(live["eth1"])
	r.Event("stored: request first -> %v ; response first -> %v", live["eth0"], live["eth1"])
	if len(live["eth0"]) != 1 || len(live["eth1"]) != 1 {
		return r.Report(&sim.Violation{Clause: "conversation-not-in-one-record", Signature: kind,
			Detail: fmt.Sprintf("request %s, response %s: request-first run holds %v, response-first run holds %v", req, rsp, live["eth0"], live["eth1"])})
	}
	if !decisive && !sameOrder {
		r.Probe("non_decisive_pair")
		return nil
	}
	want := model.IPString(a) + ">" + model.IPString(b)
	strip := func(k string) string { return k[:strings.LastIndex(k, ":")] }
	g0, g1 := strip(live["eth0"][0].key), strip(live["eth1"][0].key)
	_ = o0
	_ = o1
	if g0 != g1 {
		return r.Report(&sim.Violation{Clause: "orientation-depends-on-first-packet", Signature: kind,
			Detail: fmt.Sprintf("request %s\nresponse %s\nrequest seen first: stored %s; response seen first: stored %s", req, rsp, g0, g1)})
	}
	if !decisive {
		r.Probe("ports_of_one_class_ordered")
		return nil
	}
	if g0 != want {
		return r.Report(&sim.Violation{Clause: "stored-from-responder-to-requester", Signature: kind,
			Detail: fmt.Sprintf("request %s\nresponse %s\nstored %s in both orders, expected requester>responder %s", req, rsp, g0, want)})
	}
	return nil
}
