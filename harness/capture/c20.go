package capture

import (
	"context"
	"encoding/binary"
	"fmt"
	"sort"
	"strings"
	"time"

	"github.com/els0r/goProbe/v4/cmd/goProbe/config"
	gpcapture "github.com/els0r/goProbe/v4/pkg/capture"
	"github.com/els0r/goProbe/v4/pkg/types"
	"github.com/els0r/goProbe/v4/pkg/types/hashmap"

	"verif/model"
	"verif/sim"
)

func aggRecords(m *hashmap.AggFlowMap, where string) []record {
	var out []record
	if m == nil {
		return nil
	}
	for _, sub := range []*hashmap.Map{m.PrimaryMap, m.SecondaryMap} {
		if sub == nil {
			continue
		}
		for it := sub.Iter(); it.Next(); {
			k := types.Key(it.Key())
			v := it.Val()
			out = append(out, record{where: where, v4: k.IsIPv4(),
				key: fmt.Sprintf("%s>%s:%d/%d", model.IPString(k.GetSIP()), model.IPString(k.GetDIP()), binary.BigEndian.Uint16(k.GetDport()), k.GetProto()),
				c:   model.Counters{BR: v.BytesRcvd, BS: v.BytesSent, PR: v.PacketsRcvd, PS: v.PacketsSent}})
		}
	}
	sort.Slice(out, func(i, j int) bool { return out[i].key < out[j].key })
	return out
}

// liveFlows takes a live snapshot of the in-memory flows of an interface (this pauses the capture
// through the three-point lock, like a live query does).
func liveFlows(ctx context.Context, mgr *gpcapture.Manager, iface string) []record {
	ch := make(chan hashmap.AggFlowMapWithMetadata, 8)
	mgr.GetFlowMaps(ctx, nil, ch, iface)
	close(ch)
	var out []record
	for m := range ch {
		out = append(out, aggRecords(m.AggFlowMap, "memory")...)
	}
	return out
}

type burst struct {
	at    time.Duration
	pkts  []pkt
	iface string
}

type ctlOp struct {
	at   time.Duration
	kind string // "status", "live"
}

// captureRun is the shared scenario of C20, C21 and C23: one interface, generated traffic in
// bursts (some aligned with rotations and controller calls), rotations from the real ticker,
// status calls and live snapshots from a controller; the scheduler interleaves everything.
func captureRun(r *sim.R, focus string) *sim.Violation {
	t := r.T
	w := newCWorld(r)
	defer w.install()()
	// knobs
	bufLimit := []int{64 << 20, 4096, 8192, 12288, 100000, 4100, 6000, 4097}[t.Draw(8)]
	if focus == "C20" {
		bufLimit = 64 << 20
	}
	// C21: one run in four captures on two interfaces that share the one local packet buffer of
	// the pool (the default of goProbe): while one capture drains what it buffered, the
	// controller goes on to pause the next one
	ifaces := []string{"eth0"}
	if focus == "C21" && t.Draw(4) == 0 {
		ifaces = []string{"eth0", "eth1"}
		bufLimit = 64 << 20
		r.RuntimeRandom = true // the manager walks its captures in Go map order
		r.Probe("two_interfaces_share_the_local_buffer")
	}
	allowV6 := t.Draw(4) != 0
	nConv := 1 + t.Draw(6)
	var convs []conversation
	for i := 0; i < nConv; i++ {
		convs = append(convs, genConversation(t, allowV6))
	}
	// traffic bursts and controller operations at drawn simulated instants; instants are drawn from
	// a small pool so that bursts coincide with rotations (300 s, 600 s) and with controller calls
	instants := []time.Duration{10 * time.Second, 120 * time.Second, 299 * time.Second, 300 * time.Second, 301 * time.Second, 450 * time.Second, 600 * time.Second, 610 * time.Second}
	var bursts []burst
	tag := 0
	seen := map[int]int{}
	nBursts := 1 + t.Draw(5)
	var allPkts []pkt
	for i := 0; i < nBursts; i++ {
		b := burst{at: instants[t.Draw(len(instants))], iface: ifaces[t.Draw(len(ifaces))]}
		n := 1 + t.Draw(12)
		if len(ifaces) > 1 {
			// traffic on both interfaces around the rotations: both pause windows hold packets
			b.at = []time.Duration{299 * time.Second, 300 * time.Second, 301 * time.Second, 600 * time.Second}[t.Draw(4)]
			n = 8 + t.Draw(56)
		}
		if focus != "C20" && bufLimit <= 12288 && t.Draw(3) == 0 {
			n = 150 + t.Draw(600) // enough to fill a small local buffer within one pause window
		}
		for j := 0; j < n; j++ {
			ci := t.Draw(len(convs))
			p := convs[ci].packet(t, seen[ci], tag)
			if n > 100 {
				p.kind = "ok"
			}
			seen[ci]++
			tag++
			b.pkts = append(b.pkts, p)
			allPkts = append(allPkts, p)
		}
		bursts = append(bursts, b)
		if len(ifaces) > 1 {
			// the twin burst on the other interface at the same instant
			tb := burst{at: b.at, iface: ifaces[0]}
			if b.iface == ifaces[0] {
				tb.iface = ifaces[1]
			}
			for j, m := 0, 8+t.Draw(56); j < m; j++ {
				ci := t.Draw(len(convs))
				p := convs[ci].packet(t, seen[ci], tag)
				p.kind = "ok"
				seen[ci]++
				tag++
				tb.pkts = append(tb.pkts, p)
				allPkts = append(allPkts, p)
			}
			bursts = append(bursts, tb)
		}
	}
	// one C20 run in forty sees a port scan: 16 400-18 000 one-packet flows (distinct destination
	// ports) on the interface within one interval, so that whatever the flow log does differently
	// once its maps are large happens at the next rotations (sizes are knobs: a table that never
	// grows beyond a handful of entries explores one regime only)
	if focus == "C20" && len(ifaces) == 1 && t.Draw(40) == 0 {
		b := burst{at: []time.Duration{10 * time.Second, 120 * time.Second, 301 * time.Second}[t.Draw(3)], iface: ifaces[0]}
		v4 := !allowV6 || t.Draw(3) != 0
		a, bb := hostsV4[0], hostsV4[1]
		if !v4 {
			a, bb = hostsV6[0], hostsV6[1]
		}
		proto := []byte{6, 17}[t.Draw(2)]
		for j, n := 0, 16400+t.Draw(1600); j < n; j++ {
			p := pkt{v4: v4, proto: proto, sip: a, dip: bb, sport: 40000, dport: uint16(1000 + j), size: 60, kind: "ok", tag: tag}
			if proto == 6 {
				p.aux = 0x02
			}
			tag++
			b.pkts = append(b.pkts, p)
			allPkts = append(allPkts, p)
		}
		bursts = append(bursts, b)
		r.Probe("scan_burst_fills_the_flow_map")
	}
	sort.SliceStable(bursts, func(i, j int) bool { return bursts[i].at < bursts[j].at })
	var ops []ctlOp
	for i, n := 0, t.Draw(5); i < n; i++ {
		ops = append(ops, ctlOp{at: instants[t.Draw(len(instants))], kind: []string{"status", "live"}[t.Draw(2)]})
	}
	sort.SliceStable(ops, func(i, j int) bool { return ops[i].at < ops[j].at })
	endAt := 620*time.Second + time.Duration(t.Draw(3))*100*time.Second
	r.Event("buffer limit %d, %d conversations, %d packets in %d bursts, %d controller calls, end at %v, schedule %s", bufLimit, nConv, len(allPkts), len(bursts), len(ops), endAt, w.sc.Strategy())
	for i, p := range allPkts {
		if i < 2000 {
			r.Note("%s", p)
		}
	}

	cfg := &config.Config{DB: config.DBConfig{Path: wdb, EncoderType: "lz4"}, Interfaces: config.Ifaces{}}
	for _, i := range ifaces {
		cfg.Interfaces[i] = config.DefaultCaptureConfig()
	}
	done := make(chan struct{}, 4)
	var mgr *gpcapture.Manager
	var initErr error
	ready := make(chan struct{})
	finalLive := map[string][]record{}
	var liveSnaps int
	start := time.Now()
	// controller
	go func() {
		defer func() { done <- struct{}{} }()
		w.register("ctl")
		mgr, initErr = gpcapture.InitManager(w.ctx, cfg, gpcapture.WithSourceInitFn(w.sourceInit), gpcapture.WithLocalBuffers(1, bufLimit))
		close(ready)
		if initErr != nil {
			return
		}
		for _, op := range ops {
			if d := op.at - time.Since(start); d > 0 {
				time.Sleep(d)
			}
			w.yield("ctl " + op.kind)
			switch op.kind {
			case "status":
				mgr.Status(w.ctx, ifaces...)
			case "live":
				for _, i := range ifaces {
					liveFlows(w.ctx, mgr, i)
				}
				liveSnaps++
			}
		}
		if d := endAt - time.Since(start); d > 0 {
			time.Sleep(d)
		}
		// wait until the wire is drained, then take the final snapshot of the in-memory flows
		for w.ctx.Err() == nil {
			pending := 0
			for _, i := range ifaces {
				if src := w.current(i); src != nil {
					pending += src.Pending()
				}
			}
			if pending == 0 {
				break
			}
			time.Sleep(100 * time.Millisecond)
		}
		w.yield("ctl final snapshot")
		for _, i := range ifaces {
			finalLive[i] = liveFlows(w.ctx, mgr, i)
		}
	}()
	// wire
	go func() {
		defer func() { done <- struct{}{} }()
		w.register("wire")
		<-ready
		if initErr != nil {
			return
		}
		for _, b := range bursts {
			if d := b.at - time.Since(start); d > 0 {
				time.Sleep(d)
			}
			for _, p := range b.pkts {
				w.yield("wire inject")
				if src := w.current(b.iface); src != nil {
					src.Inject(p.wire())
				}
			}
		}
	}()
	stall := w.run(done, 2, 40000)
	r.Steps += 0
	if initErr != nil {
		w.teardown(mgr)
		return r.Report(&sim.Violation{Clause: "manager-fails-to-start", Signature: "single interface", Detail: initErr.Error()})
	}
	if stall != "" {
		w.teardown(mgr)
		return r.Report(&sim.Violation{Clause: "capture-stalls", Signature: "capture with rotations and status calls", Detail: stall})
	}
	w.teardown(mgr)
	r.Nontriv = true

	// ---- oracle ----
	if len(ifaces) > 1 {
		// per interface: everything read from its source is in its blocks or its in-memory flows
		// (the shared buffer is large: no overflow may be reported)
		if n := sink.count("local packet buffer overflow"); n > 0 {
			return r.Report(&sim.Violation{Clause: "packet-refused-before-the-limit", Signature: "two interfaces sharing one local buffer", Detail: fmt.Sprintf("%d overflows reported with a limit of %d bytes", n, bufLimit)})
		}
		if fw := sink.matching("failed to perform writeout"); len(fw) > 0 {
			return r.Report(&sim.Violation{Clause: "writeout-failed", Signature: "write-out reports an error", Detail: strings.Join(fw, "\n")})
		}
		for _, iface := range ifaces {
			var delivered []pkt
			consumed := map[int]bool{}
			for _, p := range w.sources[iface][0].Consumed {
				consumed[p.Tag] = true
			}
			for _, b := range bursts {
				if b.iface != iface {
					continue
				}
				for _, p := range b.pkts {
					if !consumed[p.tag] {
						return r.Report(&sim.Violation{Clause: "packets-never-read", Signature: "two interfaces", Detail: fmt.Sprintf("packet %s injected on %s was never read from the source", p, iface)})
					}
					delivered = append(delivered, p)
				}
			}
			recs, byBlock, err := w.dbRecords(iface)
			if err != nil {
				return r.Report(&sim.Violation{Clause: "database-unreadable", Signature: "after capture", Detail: err.Error()})
			}
			recs = append(recs, finalLive[iface]...)
			if src := w.sources[iface][0]; src.InWindow > 0 {
				r.Probe("packets_consumed_in_pause_window")
			}
			if v := checkConservation(r, delivered, recs, byBlock, 0, focus); v != nil {
				v.Signature += ", two interfaces sharing one local buffer"
				v.Detail = "interface " + iface + ": " + v.Detail
				return v
			}
		}
		return nil
	}
	src := w.sources["eth0"][0]
	consumed := map[int]bool{}
	for _, p := range src.Consumed {
		consumed[p.Tag] = true
	}
	var delivered []pkt
	for _, p := range allPkts {
		if consumed[p.tag] {
			delivered = append(delivered, p)
		}
	}
	if len(delivered) != len(allPkts) {
		return r.Report(&sim.Violation{Clause: "packets-never-read", Signature: "capture with rotations and status calls", Detail: fmt.Sprintf("%d of %d injected packets were never read from the source", len(allPkts)-len(delivered), len(allPkts))})
	}
	recs, byBlock, err := w.dbRecords("eth0")
	if err != nil {
		return r.Report(&sim.Violation{Clause: "database-unreadable", Signature: "after capture", Detail: err.Error()})
	}
	recs = append(recs, finalLive["eth0"]...)
	overflows := sink.count("local packet buffer overflow")
	failedWrites := sink.matching("failed to perform writeout")
	r.Event("blocks=%d records=%d in-memory=%d overflows=%d live snapshots=%d", len(byBlock), len(recs)-len(finalLive["eth0"]), len(finalLive["eth0"]), overflows, liveSnaps)
	if overflows > 0 {
		r.Probe("local_buffer_overflow")
	}
	if src.InWindow > 0 {
		r.Probe("packets_consumed_in_pause_window")
	}
	if src.InWindowV6 > 0 {
		r.Probe("ipv6_packets_consumed_in_pause_window")
	}
	if src.InWindow*21 > 4096 {
		r.Probe("local_buffer_grown")
	}
	r.Shape = fmt.Sprintf("window=%s", bucket(src.InWindow))
	// an insert may be refused only when the buffer has reached its size limit: every reported
	// overflow needs a pause window whose packets occupy at least the limit
	full := 0
	for _, b := range src.WindowBytes {
		if b >= bufLimit {
			full++
		}
	}
	if overflows > full {
		return r.Report(&sim.Violation{Clause: "packet-refused-before-the-limit", Signature: fmt.Sprintf("limit is initial size times a power of two: %v", bufLimit&(bufLimit-1) == 0),
			Detail: fmt.Sprintf("%d local buffer overflows were reported with a limit of %d bytes, but only %d pause windows received packets worth that many bytes (bytes per window: %v)", overflows, bufLimit, full, src.WindowBytes)})
	}
	if len(failedWrites) > 0 {
		return r.Report(&sim.Violation{Clause: "writeout-failed", Signature: "write-out reports an error", Detail: strings.Join(failedWrites, "\n")})
	}
	return checkConservation(r, delivered, recs, byBlock, overflows, focus)
}

// checkConservation is the orientation-tolerant oracle: conversations that share candidate
// stored keys form classes; per class the four counters summed over all blocks and the in-memory
// flows must equal what the parseable packets contribute. Every record must carry a candidate
// key of some conversation, no record is empty, no conversation appears twice in one block.
func checkConservation(r *sim.R, delivered []pkt, recs []record, byBlock map[int64][]record, overflows int, focus string) *sim.Violation {
	keyClass, want := classes(delivered)
	got := map[int]model.Counters{}
	hasV6 := false
	for _, p := range delivered {
		if !p.v4 && p.parseable() {
			hasV6 = true
		}
	}
	sig := "IPv4 traffic"
	if hasV6 {
		sig = "IPv4 and IPv6 traffic"
	}
	for _, rec := range recs {
		cl, ok := keyClass[rec.key]
		if !ok {
			return r.Report(&sim.Violation{Clause: "record-with-unknown-key", Signature: sig,
				Detail: fmt.Sprintf("%s holds %s %+v: no delivered conversation can be stored under this key (source port not aggregated away, wrong address family or altered key)", rec.where, rec.key, rec.c)})
		}
		if rec.c.PR == 0 && rec.c.PS == 0 {
			return r.Report(&sim.Violation{Clause: "empty-record-written", Signature: sig, Detail: fmt.Sprintf("%s holds %s without any packet", rec.where, rec.key)})
		}
		c := got[cl]
		c.Add(rec.c)
		got[cl] = c
	}
	var missingPkts uint64
	var ids []int
	for id := range want {
		ids = append(ids, id)
	}
	sort.Ints(ids)
	for _, id := range ids {
		wv, gv := want[id], got[id]
		if wv == gv {
			continue
		}
		var keys []string
		for k, c := range keyClass {
			if c == id {
				keys = append(keys, k)
			}
		}
		sort.Strings(keys)
		if overflows > 0 && gv.BR <= wv.BR && gv.BS <= wv.BS && gv.PR <= wv.PR && gv.PS <= wv.PS {
			missingPkts += (wv.PR - gv.PR) + (wv.PS - gv.PS)
			continue
		}
		clause := "traffic-not-conserved"
		if gv.PR+gv.PS > wv.PR+wv.PS {
			clause = "traffic-counted-more-than-once"
		} else if gv.PR+gv.PS < wv.PR+wv.PS {
			clause = "traffic-lost"
		}
		return r.Report(&sim.Violation{Clause: clause, Signature: sig,
			Detail: fmt.Sprintf("conversation class %v: packets delivered sum to %+v, blocks plus in-memory flows sum to %+v (reported local buffer overflows: %d)", keys, wv, gv, overflows)})
	}
	if int(missingPkts) != overflows {
		if missingPkts > uint64(overflows) {
			return r.Report(&sim.Violation{Clause: "traffic-lost", Signature: sig + ", with local buffer overflow",
				Detail: fmt.Sprintf("%d packets are missing but only %d local buffer overflows were reported", missingPkts, overflows)})
		}
	}
	// one record per conversation and interval
	var stamps []int64
	for ts := range byBlock {
		stamps = append(stamps, ts)
	}
	sort.Slice(stamps, func(i, j int) bool { return stamps[i] < stamps[j] })
	for _, ts := range stamps {
		present := map[string]bool{}
		for _, rec := range byBlock[ts] {
			if present[rec.key] {
				return r.Report(&sim.Violation{Clause: "duplicate-record-in-block", Signature: sig, Detail: fmt.Sprintf("block %d holds two records with key %s", ts, rec.key)})
			}
			present[rec.key] = true
		}
		// a conversation whose two candidate keys are both present must be explained by other
		// conversations owning at least one of them
		owners := map[string]map[string]bool{} // key -> conversations (by fwd|rev id) that may be stored there
		for _, p := range delivered {
			if !p.parseable() {
				continue
			}
			f, rv := p.storedKeys()
			id := f + "|" + rv
			if f > rv {
				id = rv + "|" + f
			}
			for _, k := range []string{f, rv} {
				if owners[k] == nil {
					owners[k] = map[string]bool{}
				}
				owners[k][id] = true
			}
		}
		for k := range present {
			// find the reverse candidates of conversations owning k
			for id := range owners[k] {
				parts := strings.Split(id, "|")
				other := parts[0]
				if other == k {
					other = parts[1]
				}
				if other != k && present[other] && len(owners[k]) == 1 && len(owners[other]) == 1 {
					return r.Report(&sim.Violation{Clause: "conversation-in-two-records", Signature: sig,
						Detail: fmt.Sprintf("block %d holds both %s and %s, which can only be the two directions of one conversation", ts, k, other)})
				}
			}
		}
	}
	return nil
}

func bucket(n int) string {
	switch {
	case n == 0:
		return "0"
	case n < 4:
		return "1-3"
	case n < 50:
		return "4-49"
	case n < 205:
		return "50-204"
	default:
		return ">=205"
	}
}

func (w *cworld) teardown(mgr *gpcapture.Manager) {
	// stop everything: cancel the context, close the sources, let the rotation goroutine see the
	// cancellation at its next tick, then release whatever is still parked
	w.cancel()
	w.mu.Lock()
	var all []interface{ Close() error }
	for _, ss := range w.sources {
		for _, s := range ss {
			if !s.Closed {
				all = append(all, s)
			}
		}
	}
	w.mu.Unlock()
	w.sc.Stop()
	for _, s := range all {
		_ = s.Close()
	}
	time.Sleep(301 * time.Second)
}

func c20(r *sim.R) *sim.Violation { return captureRun(r, "C20") }
func c21(r *sim.R) *sim.Violation { return captureRun(r, "C21") }

// c23: one run in three drives the bare buffer against a reference FIFO, the others exercise it in
// situ (the C21 scenario on one interface).
func c23(r *sim.R) *sim.Violation {
	if r.T.Draw(3) == 0 {
		return c23bare(r)
	}
	return captureRun(r, "C23")
}
