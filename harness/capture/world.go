package capture

import (
	"context"
	"fmt"
	"sort"
	"strings"
	"sync"
	"time"

	"github.com/els0r/goProbe/v4/cmd/goProbe/config"
	gpcapture "github.com/els0r/goProbe/v4/pkg/capture"
	"github.com/els0r/telemetry/logging"

	"verif/dbcheck"
	"verif/model"
	"verif/sim"
	"verif/simfs"
	"verif/simnet"
	"verif/simsync"
)

const (
	wdb  = "/sim/w/db"
	rdb  = "/sim/r/db"
	tree = "disk"
	rel  = "/db"
)

// logSink collects goProbe's log lines (the only place where a local buffer overflow or a failed
// write-out is reported).
type logSink struct {
	mu    sync.Mutex
	lines []string
}

func (l *logSink) Write(p []byte) (int, error) {
	l.mu.Lock()
	l.lines = append(l.lines, string(p))
	l.mu.Unlock()
	return len(p), nil
}

func (l *logSink) count(sub string) int {
	l.mu.Lock()
	defer l.mu.Unlock()
	n := 0
	for _, s := range l.lines {
		if strings.Contains(strings.ToLower(s), strings.ToLower(sub)) {
			n++
		}
	}
	return n
}

func (l *logSink) matching(sub string) []string {
	l.mu.Lock()
	defer l.mu.Unlock()
	var out []string
	for _, s := range l.lines {
		if strings.Contains(strings.ToLower(s), strings.ToLower(sub)) {
			out = append(out, strings.TrimSpace(s))
		}
	}
	return out
}

var sink = &logSink{}

func init() {
	_, _ = logging.Init(logging.LevelFromString("error"), logging.EncodingPlain, logging.WithOutput(sink), logging.WithErrorOutput(sink))
}

type cworld struct {
	r   *sim.R
	fs  *simfs.FS
	sc  *sim.Sched
	dbv *dbcheck.View

	mu        sync.Mutex
	names     map[int64]string
	nameCount map[string]int
	sources   map[string][]*simnet.Source // every source ever opened per interface
	cfgs      map[string][]config.CaptureConfig
	ctx       context.Context
	cancel    context.CancelFunc
	// openFault: interfaces whose capture source cannot be opened right now (injected fault);
	// openFailed records the interfaces for which an open was attempted and failed
	openFault  map[string]bool
	openFailed map[string]bool
}

func newCWorld(r *sim.R) *cworld {
	f := simfs.New()
	f.Mount("w", tree)
	f.Mount("r", tree)
	f.OnFault = func(kind string, op *simfs.Op) { r.Fault(kind) }
	restore := simfs.Install(f)
	if err := simfs.MkdirAll(wdb, 0o755); err != nil {
		panic(simfs.HarnessError{Msg: err.Error()})
	}
	restore()
	w := &cworld{r: r, fs: f, sc: sim.NewSched(r), names: map[int64]string{}, nameCount: map[string]int{}, sources: map[string][]*simnet.Source{}, cfgs: map[string][]config.CaptureConfig{},
		dbv: &dbcheck.View{FS: f, R: r, Tree: tree, Rel: rel, Path: rdb}}
	w.ctx, w.cancel = context.WithCancel(context.Background())
	sink.mu.Lock()
	sink.lines = nil
	sink.mu.Unlock()
	return w
}

// register names the calling goroutine.
func (w *cworld) register(name string) {
	w.mu.Lock()
	w.names[sim.GoID()] = name
	w.mu.Unlock()
}

// yield is the common seam: every simulated interaction of every goroutine goes through it.
func (w *cworld) yield(what string) {
	id := sim.GoID()
	w.mu.Lock()
	n, ok := w.names[id]
	if !ok {
		// unknown goroutines (goProbe's own) are named after their first interaction
		label := what
		if strings.HasPrefix(what, "next-packet ") {
			label = "capture " + strings.TrimPrefix(what, "next-packet ")
		} else if i := strings.IndexByte(label, ' '); i > 0 && strings.HasPrefix(label, "fs ") {
			label = "fs"
		}
		w.nameCount[label]++
		n = fmt.Sprintf("%s#%d", label, w.nameCount[label])
		w.names[id] = n
	}
	w.mu.Unlock()
	w.sc.Yield(n, what)
}

func (w *cworld) install() func() {
	restoreFS := simfs.Install(w.fs)
	w.fs.Yield = func(op *simfs.Op) {
		if op.Proc.Name == "w" {
			w.yield("fs " + string(op.Kind) + " " + canonDB(op.Path))
		}
	}
	simsync.Yield = func(what string) { w.yield(what) }
	simsync.LoopYield = func(what string) {
		// only goroutines that already have a name: a goroutine is named after its first
		// interaction, which must identify it (interface name), and a loop position does not
		w.mu.Lock()
		_, known := w.names[sim.GoID()]
		w.mu.Unlock()
		if known {
			w.yield(what)
		}
	}
	return func() {
		simsync.Yield = nil
		simsync.LoopYield = nil
		w.fs.Yield = nil
		restoreFS()
	}
}

func canonDB(p string) string {
	// directory summary suffixes and temp names do not matter for scheduling keys
	if i := strings.Index(p, "_"); i > 0 {
		if j := strings.IndexByte(p[i:], '/'); j > 0 {
			p = p[:i] + p[i+j:]
		} else {
			p = p[:i]
		}
	}
	if i := strings.Index(p, ".tmp-metadata-"); i > 0 {
		p = p[:i] + ".tmp-metadata"
	}
	return p
}

// sourceInit is handed to the capture manager: every (re)started capture opens a new source.
func (w *cworld) sourceInit(c *gpcapture.Capture) (gpcapture.Source, error) {
	w.mu.Lock()
	fail := w.openFault[c.Iface()]
	if fail {
		if w.openFailed == nil {
			w.openFailed = map[string]bool{}
		}
		w.openFailed[c.Iface()] = true
	}
	w.mu.Unlock()
	if fail {
		// injected fault: the interface cannot be opened (it is down, or the ring cannot be set up)
		w.r.Fault("capture source cannot be opened")
		return nil, fmt.Errorf("simulated: cannot open capture source on %s: network is down", c.Iface())
	}
	s := simnet.NewSource(c.Iface(), w.yield)
	w.mu.Lock()
	w.sources[c.Iface()] = append(w.sources[c.Iface()], s)
	w.cfgs[c.Iface()] = append(w.cfgs[c.Iface()], c.VerifConfig())
	w.mu.Unlock()
	return s, nil
}

// current returns the most recently opened source of an interface (nil when none).
func (w *cworld) current(iface string) *simnet.Source {
	w.mu.Lock()
	defer w.mu.Unlock()
	ss := w.sources[iface]
	if len(ss) == 0 {
		return nil
	}
	return ss[len(ss)-1]
}

// run drives the scheduler until all given goroutines are done.
func (w *cworld) run(done <-chan struct{}, n int, idleLimit int) string {
	finished := 0
	idle := 0
	w.sc.Idle = func() bool {
		idle++
		if idle > idleLimit {
			return false
		}
		sim.AdvanceClock(250 * time.Millisecond)
		return true
	}
	stall := w.sc.Run(func() bool {
		for {
			select {
			case <-done:
				finished++
				continue
			default:
			}
			break
		}
		return finished >= n
	}, 3000000)
	w.r.SimTimeNs += int64(idle) * int64(250*time.Millisecond)
	return stall
}

// record is one stored (or in-memory) flow record.
type record struct {
	where string // "block <ts>" or "memory"
	key   string
	c     model.Counters
	v4    bool
}

// dbRecords reads every block of an interface back through the real reader.
func (w *cworld) dbRecords(iface string) ([]record, map[int64][]record, error) {
	w.fs.Restart("r")
	var all []record
	byBlock := map[int64][]record{}
	dirs := dbcheck.AllDayDirs(w.fs, tree, rel)
	var days []int64
	for d := range dirs[iface] {
		days = append(days, d)
	}
	sort.Slice(days, func(i, j int) bool { return days[i] < days[j] })
	for _, d := range days {
		for _, name := range dirs[iface][d] {
			dc, err := dbcheck.ReadDay(rdb+"/"+iface, d, name, 0, 0)
			if err != nil {
				return nil, nil, fmt.Errorf("day %d (%s): %w", d, name, err)
			}
			for _, b := range dc.Blocks {
				flows, err := model.DecodeColumns(b.Cols, b.Traffic.V4, b.Traffic.V6)
				if err != nil {
					return nil, nil, fmt.Errorf("day %d block %d: %w", d, b.TS, err)
				}
				for _, f := range flows {
					rec := record{where: fmt.Sprintf("block %d", b.TS), key: fmt.Sprintf("%s>%s:%d/%d", model.IPString(f.Sip), model.IPString(f.Dip), f.Dport, f.Proto), c: f.C, v4: f.V4}
					all = append(all, rec)
					byBlock[b.TS] = append(byBlock[b.TS], rec)
				}
			}
		}
	}
	return all, byBlock, nil
}
