package capture

import (
	"context"
	"fmt"
	"sort"
	"strings"
	"time"

	"github.com/els0r/goProbe/v4/cmd/goProbe/config"
	gpcapture "github.com/els0r/goProbe/v4/pkg/capture"
	"github.com/els0r/goProbe/v4/pkg/capture/capturetypes"
	"github.com/els0r/goProbe/v4/pkg/goDB"
	"github.com/els0r/goProbe/v4/pkg/goDB/encoder/encoders"
	"github.com/els0r/goProbe/v4/pkg/goDB/engine"
	"github.com/els0r/goProbe/v4/pkg/query"

	"verif/dbcheck"
	"verif/model"
	"verif/sim"
)

func recToFlow(rec record) model.Flow {
	// key "sip>dip:dport/proto"
	i := strings.Index(rec.key, ">")
	j := strings.LastIndex(rec.key, ":")
	k := strings.LastIndex(rec.key, "/")
	f := model.Flow{V4: rec.v4, C: rec.c}
	f.Sip = parseIP(rec.key[:i])
	f.Dip = parseIP(rec.key[i+1 : j])
	var dp, pr int
	fmt.Sscanf(rec.key[j+1:k], "%d", &dp)
	fmt.Sscanf(rec.key[k+1:], "%d", &pr)
	f.Dport, f.Proto = uint16(dp), byte(pr)
	return f
}

type liveCheck struct {
	at    string
	q     *model.Query
	rows  []string
	err   error
	snapA map[string][]record // in-memory flows per captured interface before ...
	snapB map[string][]record // ... and after the live query
	store map[string][]record // stored records per interface at that instant
}

// layout29 says which interfaces a C29 scenario captures on and which one exists in the database
// only (it was captured earlier: a live query over "any" names it although no capture runs on it).
type layout29 struct {
	captured []string
	dbOnly   string         // "" = none; sorts before the captured interfaces
	ifaceOf  map[int]string // packet tag -> interface it arrives on
}

func (l layout29) all() []string {
	var out []string
	if l.dbOnly != "" {
		out = append(out, l.dbOnly)
	}
	return append(out, l.captured...)
}

// scenario29 runs one capture scenario; withLive decides whether live queries are issued.
func scenario29(r *sim.R, lay layout29, pkts [][]pkt, queries []*model.Query, withLive bool) (checks []liveCheck, final []string, v *sim.Violation) {
	w := newCWorld(r)
	defer w.install()()
	cfg := &config.Config{DB: config.DBConfig{Path: wdb, EncoderType: "lz4"}, Interfaces: config.Ifaces{}}
	for _, i := range lay.captured {
		cfg.Interfaces[i] = config.DefaultCaptureConfig()
	}
	done := make(chan struct{}, 1)
	var mgr *gpcapture.Manager
	var initErr error
	start := time.Now()
	go func() {
		defer func() { done <- struct{}{} }()
		w.register("ctl")
		if lay.dbOnly != "" {
			// data of an interface that is not captured any more
			fm := model.ToAggFlowMap([]model.Flow{{V4: true, Sip: []byte{10, 9, 9, 1}, Dip: []byte{10, 9, 9, 2}, Dport: 443, Proto: 6, C: model.Counters{BR: 100, BS: 200, PR: 1, PS: 2}}})
			if err := goDB.NewDBWriter(wdb, lay.dbOnly, encoders.EncoderTypeLZ4).Write(fm, capturetypes.CaptureStats{}, time.Now().Unix()-600); err != nil {
				initErr = err
				return
			}
		}
		mgr, initErr = gpcapture.InitManager(w.ctx, cfg, gpcapture.WithSourceInitFn(w.sourceInit))
		if initErr != nil {
			return
		}
		// phases: packets, live query, ... ; phase 1 and 3 lie after a rotation
		instants := []time.Duration{20 * time.Second, 310 * time.Second, 330 * time.Second, 620 * time.Second}
		for i, batch := range pkts {
			if d := instants[i%len(instants)] - time.Since(start); d > 0 {
				time.Sleep(d)
			}
			for _, p := range batch {
				src := w.current(lay.ifaceOf[p.tag])
				w.yield("wire inject")
				src.Inject(p.wire())
				for src.Pending() > 0 && w.ctx.Err() == nil {
					time.Sleep(5 * time.Millisecond)
				}
			}
			if !withLive || i >= len(queries) {
				continue
			}
			q := queries[i]
			lc := liveCheck{at: fmt.Sprintf("t=%v", time.Since(start).Round(time.Second)), q: q, snapA: map[string][]record{}, snapB: map[string][]record{}, store: map[string][]record{}}
			for _, i := range lay.captured {
				lc.snapA[i] = liveFlows(w.ctx, mgr, i)
			}
			for _, i := range lay.all() {
				lc.store[i], _, _ = w.dbRecords(i)
			}
			a := query.NewArgs(q.QueryType(), strings.Join(q.Ifaces, ","))
			a.Condition = q.CondString()
			a.First = "1"
			a.NumResults = 1 << 40
			a.Format = "json"
			a.MaxMemPct = 99
			a.Live = true
			res, err := engine.NewQueryRunner(rdb, engine.WithLiveData(mgr)).Run(context.Background(), a)
			lc.err = err
			if res != nil {
				lc.rows = dbcheck.RowsCanon(res.Rows)
			}
			for _, i := range lay.captured {
				lc.snapB[i] = liveFlows(w.ctx, mgr, i)
			}
			checks = append(checks, lc)
		}
		if d := 905*time.Second - time.Since(start); d > 0 {
			time.Sleep(d)
		}
	}()
	stall := w.run(done, 1, 40000)
	if initErr != nil {
		w.teardown(mgr)
		return nil, nil, r.Report(&sim.Violation{Clause: "manager-fails-to-start", Signature: "single interface", Detail: initErr.Error()})
	}
	if stall != "" {
		w.teardown(mgr)
		return nil, nil, r.Report(&sim.Violation{Clause: "capture-stalls", Signature: "live queries", Detail: stall})
	}
	w.teardown(mgr)
	for _, iface := range lay.captured {
		recs, _, err := w.dbRecords(iface)
		if err != nil {
			return nil, nil, r.Report(&sim.Violation{Clause: "database-unreadable", Signature: "after capture", Detail: err.Error()})
		}
		// blocks are numbered in time order: the paired run happens later on the same fake clock
		order := map[string]int{}
		var wheres []string
		for _, rec := range recs {
			if _, ok := order[rec.where]; !ok {
				order[rec.where] = 0
				wheres = append(wheres, rec.where)
			}
		}
		sort.Strings(wheres)
		for i, wh := range wheres {
			order[wh] = i
		}
		for _, rec := range recs {
			final = append(final, fmt.Sprintf("%s block#%d %s %+v", iface, order[rec.where], rec.key, rec.c))
		}
	}
	sort.Strings(final)
	return checks, final, nil
}

// C29: live queries return stored plus in-memory flows with the semantics of stored data, and
// issuing them does not change what is written later.
func c29(r *sim.R) *sim.Violation {
	t := r.T
	nBatches := 2 + t.Draw(3)
	// one run in three: two or three captured interfaces and one that only exists in the database
	lay := layout29{captured: []string{"eth0"}, ifaceOf: map[int]string{}}
	if t.Draw(3) == 0 {
		lay.captured = []string{"eth1", "eth2", "eth3"}[:2+t.Draw(2)]
		if t.Bool() {
			lay.dbOnly = "eth0"
		}
	}
	// the capture manager walks its captures in Go map order (rotation, start-up): with several
	// interfaces the course of a run is not a function of the tape alone
	r.RuntimeRandom = len(lay.captured) > 1
	convs := []conversation{genConversation(t, true), genConversation(t, true), genConversation(t, true)}
	var pkts [][]pkt
	tag := 0
	seen := map[int]int{}
	for i := 0; i < nBatches; i++ {
		var b []pkt
		for j, n := 0, 1+t.Draw(8); j < n; j++ {
			ci := t.Draw(len(convs))
			p := convs[ci].packet(t, seen[ci], tag)
			p.kind = "ok"
			// a conversation stays on one interface
			lay.ifaceOf[tag] = lay.captured[ci%len(lay.captured)]
			seen[ci]++
			tag++
			b = append(b, p)
		}
		pkts = append(pkts, b)
	}
	// the stored/in-memory content is not known before the run: queries are generated against an
	// empty model store (attributes, conditions and direction only; no time label: in-memory flows
	// have no block timestamp yet)
	var queries []*model.Query
	empty := model.NewStore()
	empty.Add("eth0", model.FlowBlock(1, nil, 0))
	for i := 0; i < nBatches; i++ {
		q := model.GenQuery(t, empty)
		q.Time, q.Ifaces = false, lay.all()
		if len(q.Ifaces) == 1 {
			q.IfaceAttr = false
		} else if t.Draw(4) == 0 {
			q.Ifaces = q.Ifaces[len(q.Ifaces)-1:] // an interface subset
		}
		q.First, q.Last = 1, 4102444800
		if q.Cond != nil {
			if a, b := q.Cond.Families(); a != b {
				q.Cond = nil // family pruning is C08's finding
			}
		}
		queries = append(queries, q)
	}
	r.Event("captured %v, database only %q; %d batches; queries: %v", lay.captured, lay.dbOnly, nBatches, func() []string {
		var s []string
		for _, q := range queries {
			s = append(s, q.QueryType()+" / "+q.CondString())
		}
		return s
	}())
	checks, finalWith, v := scenario29(r, lay, pkts, queries, true)
	if v != nil {
		return v
	}
	r.Nontriv = len(checks) > 0
	for _, lc := range checks {
		sig := "attributes " + lc.q.QueryType()
		if len(lc.q.Attrs) == 4 {
			sig = "all attributes"
		} else {
			sig = "attribute subset"
		}
		if len(lay.captured) > 1 {
			sig += ", several interfaces"
		}
		nStored := 0 // records on disk of the queried interfaces
		for _, iface := range lc.q.Ifaces {
			nStored += len(lc.store[iface])
		}
		if lc.err != nil {
			if nStored == 0 && strings.Contains(lc.err.Error(), "no interfaces provided") {
				sig = "interface captured but without data on disk yet"
			}
			if v := r.Report(&sim.Violation{Clause: "live-query-fails", Signature: sig, Detail: fmt.Sprintf("%s %s: %v", lc.at, describe29(lc.q), lc.err)}); v != nil {
				return v
			}
			continue
		}
		if fmt.Sprint(lc.snapA) != fmt.Sprint(lc.snapB) {
			// the in-memory flows moved while the query ran (a rotation in between): not comparable
			r.Probe("rotation_during_live_query")
			continue
		}
		m := model.NewStore()
		onlyStored := model.NewStore()
		nLive := 0
		for _, iface := range lay.all() {
			var flows []model.Flow
			for _, rec := range lc.store[iface] {
				flows = append(flows, recToFlow(rec))
			}
			if len(flows) > 0 {
				m.Add(iface, model.Block{TS: 100, Flows: flows})
				onlyStored.Add(iface, model.Block{TS: 100, Flows: flows})
			}
			var live []model.Flow
			for _, rec := range lc.snapA[iface] {
				live = append(live, recToFlow(rec))
			}
			if len(live) > 0 {
				m.Add(iface, model.Block{TS: 200, Flows: live})
				nLive += len(live)
			}
		}
		if nLive > 0 {
			r.Probe("live_query_with_flows_in_memory")
		}
		if lay.dbOnly != "" && nLive > 0 {
			r.Probe("live_query_names_an_interface_without_capture")
		}
		want, _ := lc.q.Eval(m, false)
		if d := dbcheck.DiffRows(want, lc.rows); d != "" {
			// an interface that is captured but has nothing on disk yet cannot be queried at all:
			// the known finding above; with several interfaces its in-memory flows are just missing
			missingOnDisk := false
			for _, iface := range lc.q.Ifaces {
				if len(lc.store[iface]) == 0 && len(lc.snapA[iface]) > 0 {
					missingOnDisk = true
				}
			}
			ws, _ := lc.q.Eval(onlyStored, false)
			clause := "live-result-differs"
			if dbcheck.DiffRows(ws, lc.rows) == "" && nLive > 0 {
				clause = "in-memory-flows-missing"
			}
			if strings.Contains(d, "32.1.13.184") || strings.Contains(d, "|0.0.0.0|") {
				continue // C08's rendering finding
			}
			if missingOnDisk {
				sig = "interface captured but without data on disk yet"
				clause = "live-query-fails"
			}
			if v := r.Report(&sim.Violation{Clause: clause, Signature: sig,
				Detail: fmt.Sprintf("%s %s\nin memory: %v\nstored: %d records\n%s", lc.at, describe29(lc.q), lc.snapA, nStored, d)}); v != nil {
				return v
			}
		}
	}
	// paired run without the live queries: same database content at the end
	_, finalWithout, v := scenario29(r, lay, pkts, queries, false)
	if v != nil {
		return v
	}
	if strings.Join(finalWith, "\n") != strings.Join(finalWithout, "\n") {
		return r.Report(&sim.Violation{Clause: "live-queries-change-what-is-written", Signature: "paired run without live queries",
			Detail: fmt.Sprintf("database after the run with live queries:\n%s\nafter the same run without them:\n%s", strings.Join(finalWith, "\n"), strings.Join(finalWithout, "\n"))})
	}
	return nil
}

func describe29(q *model.Query) string {
	return fmt.Sprintf("live query %q condition=%q", q.QueryType(), q.CondString())
}
