package capture

import (
	"context"
	"fmt"
	"sort"
	"strings"
	"time"

	"github.com/els0r/goProbe/v4/cmd/goProbe/config"
	gpcapture "github.com/els0r/goProbe/v4/pkg/capture"
	"github.com/els0r/goProbe/v4/pkg/goDB/engine"
	"github.com/els0r/goProbe/v4/pkg/query"

	"verif/dbcheck"
	"verif/model"
	"verif/sim"
)

func recToFlow(rec record) model.Flow {
	// key "sip>dip:dport/proto"
	i := strings.Index(rec.key, ">")
	j := strings.LastIndex(rec.key, ":")
	k := strings.LastIndex(rec.key, "/")
	f := model.Flow{V4: rec.v4, C: rec.c}
	f.Sip = parseIP(rec.key[:i])
	f.Dip = parseIP(rec.key[i+1 : j])
	var dp, pr int
	fmt.Sscanf(rec.key[j+1:k], "%d", &dp)
	fmt.Sscanf(rec.key[k+1:], "%d", &pr)
	f.Dport, f.Proto = uint16(dp), byte(pr)
	return f
}

type liveCheck struct {
	at    string
	q     *model.Query
	rows  []string
	err   error
	snapA []record
	snapB []record
	store []record // stored records at that instant
}

// scenario29 runs one capture scenario; withLive decides whether live queries are issued.
func scenario29(r *sim.R, pkts [][]pkt, queries []*model.Query, withLive bool) (checks []liveCheck, final []string, v *sim.Violation) {
	w := newCWorld(r)
	defer w.install()()
	cfg := &config.Config{DB: config.DBConfig{Path: wdb, EncoderType: "lz4"}, Interfaces: config.Ifaces{"eth0": config.DefaultCaptureConfig()}}
	done := make(chan struct{}, 1)
	var mgr *gpcapture.Manager
	var initErr error
	start := time.Now()
	go func() {
		defer func() { done <- struct{}{} }()
		w.register("ctl")
		mgr, initErr = gpcapture.InitManager(w.ctx, cfg, gpcapture.WithSourceInitFn(w.sourceInit))
		if initErr != nil {
			return
		}
		// phases: packets, live query, ... ; phase 1 and 3 lie after a rotation
		instants := []time.Duration{20 * time.Second, 310 * time.Second, 330 * time.Second, 620 * time.Second}
		for i, batch := range pkts {
			if d := instants[i%len(instants)] - time.Since(start); d > 0 {
				time.Sleep(d)
			}
			src := w.current("eth0")
			for _, p := range batch {
				w.yield("wire inject")
				src.Inject(p.wire())
				for src.Pending() > 0 && w.ctx.Err() == nil {
					time.Sleep(5 * time.Millisecond)
				}
			}
			if !withLive || i >= len(queries) {
				continue
			}
			q := queries[i]
			lc := liveCheck{at: fmt.Sprintf("t=%v", time.Since(start).Round(time.Second)), q: q}
			lc.snapA = liveFlows(w.ctx, mgr, "eth0")
			lc.store, _, _ = w.dbRecords("eth0")
			a := query.NewArgs(q.QueryType(), "eth0")
			a.Condition = q.CondString()
			a.First = "1"
			a.NumResults = 1 << 40
			a.Format = "json"
			a.MaxMemPct = 99
			a.Live = true
			res, err := engine.NewQueryRunner(rdb, engine.WithLiveData(mgr)).Run(context.Background(), a)
			lc.err = err
			if res != nil {
				lc.rows = dbcheck.RowsCanon(res.Rows)
			}
			lc.snapB = liveFlows(w.ctx, mgr, "eth0")
			checks = append(checks, lc)
		}
		if d := 905*time.Second - time.Since(start); d > 0 {
			time.Sleep(d)
		}
	}()
	stall := w.run(done, 1, 40000)
	if initErr != nil {
		w.teardown(mgr)
		return nil, nil, r.Report(&sim.Violation{Clause: "manager-fails-to-start", Signature: "single interface", Detail: initErr.Error()})
	}
	if stall != "" {
		w.teardown(mgr)
		return nil, nil, r.Report(&sim.Violation{Clause: "capture-stalls", Signature: "live queries", Detail: stall})
	}
	w.teardown(mgr)
	recs, _, err := w.dbRecords("eth0")
	if err != nil {
		return nil, nil, r.Report(&sim.Violation{Clause: "database-unreadable", Signature: "after capture", Detail: err.Error()})
	}
	// blocks are numbered in time order: the paired run happens later on the same fake clock
	order := map[string]int{}
	var wheres []string
	for _, rec := range recs {
		if _, ok := order[rec.where]; !ok {
			order[rec.where] = 0
			wheres = append(wheres, rec.where)
		}
	}
	sort.Strings(wheres)
	for i, wh := range wheres {
		order[wh] = i
	}
	for _, rec := range recs {
		final = append(final, fmt.Sprintf("block#%d %s %+v", order[rec.where], rec.key, rec.c))
	}
	sort.Strings(final)
	return checks, final, nil
}

// C29: live queries return stored plus in-memory flows with the semantics of stored data, and
// issuing them does not change what is written later.
func c29(r *sim.R) *sim.Violation {
	t := r.T
	nBatches := 2 + t.Draw(3)
	convs := []conversation{genConversation(t, true), genConversation(t, true), genConversation(t, true)}
	var pkts [][]pkt
	tag := 0
	seen := map[int]int{}
	for i := 0; i < nBatches; i++ {
		var b []pkt
		for j, n := 0, 1+t.Draw(8); j < n; j++ {
			ci := t.Draw(len(convs))
			p := convs[ci].packet(t, seen[ci], tag)
			p.kind = "ok"
			seen[ci]++
			tag++
			b = append(b, p)
		}
		pkts = append(pkts, b)
	}
	// the stored/in-memory content is not known before the run: queries are generated against an
	// empty model store (attributes, conditions and direction only; no time label: in-memory flows
	// have no block timestamp yet)
	var queries []*model.Query
	empty := model.NewStore()
	empty.Add("eth0", model.FlowBlock(1, nil, 0))
	for i := 0; i < nBatches; i++ {
		q := model.GenQuery(t, empty)
		q.Time, q.IfaceAttr, q.Ifaces = false, false, []string{"eth0"}
		q.First, q.Last = 1, 4102444800
		if q.Cond != nil {
			if a, b := q.Cond.Families(); a != b {
				q.Cond = nil // family pruning is C08's finding
			}
		}
		queries = append(queries, q)
	}
	r.Event("%d batches; queries: %v", nBatches, func() []string {
		var s []string
		for _, q := range queries {
			s = append(s, q.QueryType()+" / "+q.CondString())
		}
		return s
	}())
	checks, finalWith, v := scenario29(r, pkts, queries, true)
	if v != nil {
		return v
	}
	r.Nontriv = len(checks) > 0
	for _, lc := range checks {
		sig := "attributes " + lc.q.QueryType()
		if len(lc.q.Attrs) == 4 {
			sig = "all attributes"
		} else {
			sig = "attribute subset"
		}
		if lc.err != nil {
			if len(lc.store) == 0 && strings.Contains(lc.err.Error(), "no interfaces provided") {
				sig = "interface captured but without data on disk yet"
			}
			if v := r.Report(&sim.Violation{Clause: "live-query-fails", Signature: sig, Detail: fmt.Sprintf("%s %s: %v", lc.at, describe29(lc.q), lc.err)}); v != nil {
				return v
			}
			continue
		}
		if fmt.Sprint(lc.snapA) != fmt.Sprint(lc.snapB) {
			// the in-memory flows moved while the query ran (a rotation in between): not comparable
			r.Probe("rotation_during_live_query")
			continue
		}
		m := model.NewStore()
		var flows []model.Flow
		for _, rec := range lc.store {
			flows = append(flows, recToFlow(rec))
		}
		m.Add("eth0", model.Block{TS: 100, Flows: flows})
		var live []model.Flow
		for _, rec := range lc.snapA {
			live = append(live, recToFlow(rec))
		}
		m.Add("eth0", model.Block{TS: 200, Flows: live})
		if len(live) > 0 {
			r.Probe("live_query_with_flows_in_memory")
		}
		want, _ := lc.q.Eval(m, false)
		if d := dbcheck.DiffRows(want, lc.rows); d != "" {
			onlyStored := model.NewStore()
			onlyStored.Add("eth0", model.Block{TS: 100, Flows: flows})
			ws, _ := lc.q.Eval(onlyStored, false)
			clause := "live-result-differs"
			if dbcheck.DiffRows(ws, lc.rows) == "" && len(live) > 0 {
				clause = "in-memory-flows-missing"
			}
			if strings.Contains(d, "32.1.13.184") || strings.Contains(d, "|0.0.0.0|") {
				continue // C08's rendering finding
			}
			if v := r.Report(&sim.Violation{Clause: clause, Signature: sig,
				Detail: fmt.Sprintf("%s %s\nin memory: %v\nstored: %d records\n%s", lc.at, describe29(lc.q), lc.snapA, len(lc.store), d)}); v != nil {
				return v
			}
		}
	}
	// paired run without the live queries: same database content at the end
	_, finalWithout, v := scenario29(r, pkts, queries, false)
	if v != nil {
		return v
	}
	if strings.Join(finalWith, "\n") != strings.Join(finalWithout, "\n") {
		return r.Report(&sim.Violation{Clause: "live-queries-change-what-is-written", Signature: "paired run without live queries",
			Detail: fmt.Sprintf("database after the run with live queries:\n%s\nafter the same run without them:\n%s", strings.Join(finalWith, "\n"), strings.Join(finalWithout, "\n"))})
	}
	return nil
}

func describe29(q *model.Query) string {
	return fmt.Sprintf("live query %q condition=%q", q.QueryType(), q.CondString())
}
