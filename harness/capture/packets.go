// Package capture is the capture-sim engine: the real capture manager (three-point lock, packet
// loop, local buffer, flow log, rotation goroutine, write-out handler, DB writer) with simulated
// packet sources, clock, disk and a seeded scheduler that decides who runs at every seam.
package capture

import (
	"encoding/binary"
	"fmt"
	"net/netip"
	"sort"

	"verif/model"
	"verif/sim"
	"verif/simnet"
)

// pkt is a generated packet (the model's view).
type pkt struct {
	v4           bool
	proto        byte
	sip, dip     []byte
	sport, dport uint16
	aux          byte // TCP flags or ICMP type
	size         uint32
	out          bool
	kind         string // "ok", "fragment", "truncated", "nonip"
	tag          int
}

func (p pkt) String() string {
	d := "in"
	if p.out {
		d = "out"
	}
	return fmt.Sprintf("#%d %s %s:%d>%s:%d proto=%d aux=%#x size=%d %s %s", p.tag, map[bool]string{true: "v4", false: "v6"}[p.v4], model.IPString(p.sip), p.sport, model.IPString(p.dip), p.dport, p.proto, p.aux, p.size, d, p.kind)
}

// bytes renders the IP layer as the capture source would deliver it (headers only).
func (p pkt) bytes() []byte {
	if p.kind == "nonip" {
		return []byte{0x00, 0x01, 0x08, 0x00, 0x06, 0x04, 0, 1, 0, 0, 0, 0, 0, 0, 0, 0, 0, 0, 0, 0, 0, 0, 0, 0, 0, 0, 0, 0, 0, 0, 0, 0, 0, 0, 0, 0, 0, 0, 0, 0}
	}
	var b []byte
	if p.v4 {
		b = make([]byte, 20+20)
		b[0] = 0x45
		binary.BigEndian.PutUint16(b[2:], uint16(p.size))
		if p.kind == "fragment" {
			binary.BigEndian.PutUint16(b[6:], 185) // fragment offset != 0
		}
		b[8] = 64
		b[9] = p.proto
		copy(b[12:16], p.sip)
		copy(b[16:20], p.dip)
		transport(b[20:], p)
		switch {
		case p.kind == "truncated" && p.proto == 6:
			b = b[:20+13] // flags byte missing
		case p.kind == "truncated" && p.proto == 17:
			b = b[:20+3]
		case p.kind == "truncated":
			b = b[:20]
		}
		return b
	}
	b = make([]byte, 40+20)
	b[0] = 0x60
	b[6] = p.proto
	b[7] = 64
	copy(b[8:24], p.sip)
	copy(b[24:40], p.dip)
	transport(b[40:], p)
	switch {
	case p.kind == "truncated" && p.proto == 6:
		b = b[:40+13]
	case p.kind == "truncated" && p.proto == 17:
		b = b[:40+3]
	case p.kind == "truncated":
		b = b[:40]
	}
	return b
}

func transport(b []byte, p pkt) {
	switch p.proto {
	case 6:
		binary.BigEndian.PutUint16(b[0:], p.sport)
		binary.BigEndian.PutUint16(b[2:], p.dport)
		b[12] = 0x50
		b[13] = p.aux
	case 17:
		binary.BigEndian.PutUint16(b[0:], p.sport)
		binary.BigEndian.PutUint16(b[2:], p.dport)
	case 1, 58:
		b[0] = p.aux
	}
}

// inboundTypes are link-layer packet types other than "outgoing" (4): this host, broadcast,
// multicast, other host, loopback, user, kernel, unknown (255), and two values whose low bits
// equal 4 (the type is a byte: everything but 4 counts as received).
var inboundTypes = []byte{0, 1, 2, 3, 5, 6, 7, 255, 0x84, 0x44}

func (p pkt) wire() simnet.Packet {
	t := inboundTypes[(p.tag*7+int(p.size))%len(inboundTypes)]
	if p.tag%3 != 0 {
		t = 0 // PacketThisHost: the usual case
	}
	if p.out {
		t = 4 // PacketOutgoing
	}
	return simnet.Packet{IP: p.bytes(), Type: t, Size: p.size, Tag: p.tag}
}

// Documented common service ports whose peer port is aggregated away even for the session key.
func commonPort(port uint16, proto byte) bool {
	switch proto {
	case 6:
		return port == 53 || port == 80 || port == 443 || port == 445 || port == 8080
	case 17:
		return port == 53 || port == 443
	}
	return false
}

// parseable: does the documentation say the packet contributes to a flow?
func (p pkt) parseable() bool {
	if p.kind == "nonip" || p.kind == "truncated" {
		return false
	}
	if p.kind == "fragment" && p.proto != 50 {
		return false
	}
	return true
}

// storedKeys returns the two keys (sip,dip,dport,proto) under which the conversation of this
// packet may legitimately be stored: as seen from this packet or reversed. The source port is
// never part of a stored key; the destination port slot holds the responder-side port unless the
// peer's port is a common service port (documented aggregation rule).
func (p pkt) storedKeys() (fwd, rev string) {
	var sp, dp uint16
	if p.proto == 6 || p.proto == 17 {
		if !commonPort(p.dport, p.proto) {
			sp = p.sport
		}
		if !commonPort(p.sport, p.proto) {
			dp = p.dport
		}
	}
	fwd = fmt.Sprintf("%s>%s:%d/%d", model.IPString(p.sip), model.IPString(p.dip), dp, p.proto)
	rev = fmt.Sprintf("%s>%s:%d/%d", model.IPString(p.dip), model.IPString(p.sip), sp, p.proto)
	return
}

func (p pkt) counters() model.Counters {
	if p.out {
		return model.Counters{BS: uint64(p.size), PS: 1}
	}
	return model.Counters{BR: uint64(p.size), PR: 1}
}

var (
	hostsV4 = [][]byte{{10, 0, 0, 1}, {10, 0, 0, 2}, {192, 168, 1, 9}, {8, 8, 8, 8}, {224, 0, 0, 251}, {255, 255, 255, 255}}
	hostsV6 = [][]byte{v6("2001:db8::1"), v6("2001:db8::2"), v6("fe80::1"), v6("ff02::fb"), v6("2a00:1450:4001:81b::200e")}
	ports   = []uint16{80, 443, 53, 22, 8080, 445, 123, 500, 1023, 1024, 2049, 32767, 32768, 40000, 50000, 65535, 0}
)

func v6(s string) []byte {
	a := netip.MustParseAddr(s).As16()
	return a[:]
}

// genConversation draws the two endpoints of a conversation and returns a generator of its packets.
type conversation struct {
	v4        bool
	proto     byte
	a, b      []byte
	pa, pb    uint16
	icmpReq   byte
	icmpRep   byte
	handshake bool
}

func genConversation(t *sim.Tape, allowV6 bool) conversation {
	c := conversation{v4: true}
	if allowV6 && t.Draw(3) == 2 {
		c.v4 = false
	}
	hosts := hostsV4
	if !c.v4 {
		hosts = hostsV6
	}
	c.a = hosts[t.Draw(3)] // requester is never a multicast address
	c.b = hosts[t.Draw(len(hosts))]
	c.proto = []byte{6, 17, 6, 17, 1, 50, 47}[t.Draw(7)]
	if !c.v4 && c.proto == 1 {
		c.proto = 58
	}
	c.pa, c.pb = sim.Pick(t, ports), sim.Pick(t, ports)
	if c.proto == 1 {
		c.icmpReq, c.icmpRep = []byte{8, 13}[t.Draw(2)], 0
		if c.icmpReq == 13 {
			c.icmpRep = 14
		}
	}
	if c.proto == 58 {
		c.icmpReq, c.icmpRep = 0x80, 0x81
	}
	c.handshake = t.Draw(2) == 0
	return c
}

var bigSizes = []uint32{1500, 9000, 65535, 65536, 65549, 196000, 1 << 24, 1<<31 + 5, 0xFFFFFFFF}

// packet draws the i-th packet of the conversation (i=0 is the first request).
func (c conversation) packet(t *sim.Tape, n int, tag int) pkt {
	fromA := n == 0 || t.Draw(2) == 0
	p := pkt{v4: c.v4, proto: c.proto, kind: "ok", tag: tag, size: uint32(40 + t.Draw(1400))}
	if t.Chance(1, 8) {
		// the wire size is a 32-bit quantity (GRO/TSO aggregates exceed 64 KiB)
		p.size = sim.Pick(t, bigSizes)
	}
	if fromA {
		p.sip, p.dip, p.sport, p.dport = c.a, c.b, c.pa, c.pb
	} else {
		p.sip, p.dip, p.sport, p.dport = c.b, c.a, c.pb, c.pa
	}
	p.out = t.Draw(2) == 0
	switch c.proto {
	case 6:
		p.aux = 0x10 // ACK
		if c.handshake && n == 0 {
			p.aux = 0x02 // SYN
		} else if c.handshake && n == 1 && !fromA {
			p.aux = 0x12 // SYN-ACK
		} else if t.Draw(5) == 0 {
			p.aux = []byte{0x18, 0x11, 0x04, 0x00, 0xc2, 0x52}[t.Draw(6)]
		}
	case 1, 58:
		p.aux = c.icmpReq
		if !fromA {
			p.aux = c.icmpRep
		}
	default:
		p.sport, p.dport = 0, 0
	}
	if c.proto != 6 && c.proto != 17 {
		p.sport, p.dport = 0, 0
	}
	switch t.Draw(25) {
	case 0:
		if c.v4 {
			p.kind = "fragment"
		}
	case 1:
		// only protocols with a transport header the parser looks at can be truncated
		if c.proto == 6 || c.proto == 17 || c.proto == 1 || c.proto == 58 {
			p.kind = "truncated"
		}
	case 2:
		p.kind = "nonip"
	}
	return p
}

// classes groups conversations that share candidate stored keys and sums, per class, what the
// parseable packets contribute. Returns key -> class id and class id -> counters.
func classes(pkts []pkt) (map[string]int, map[int]model.Counters) {
	parent := map[string]string{}
	var find func(x string) string
	find = func(x string) string {
		if parent[x] == "" || parent[x] == x {
			parent[x] = x
			return x
		}
		r := find(parent[x])
		parent[x] = r
		return r
	}
	for _, p := range pkts {
		if !p.parseable() {
			continue
		}
		f, rv := p.storedKeys()
		parent[find(f)] = find(rv)
	}
	ids := map[string]int{}
	keyClass := map[string]int{}
	var roots []string
	for k := range parent {
		roots = append(roots, k)
	}
	sort.Strings(roots)
	for _, k := range roots {
		r := find(k)
		if _, ok := ids[r]; !ok {
			ids[r] = len(ids)
		}
		keyClass[k] = ids[r]
	}
	sums := map[int]model.Counters{}
	for _, p := range pkts {
		if !p.parseable() {
			continue
		}
		f, _ := p.storedKeys()
		c := sums[keyClass[f]]
		c.Add(p.counters())
		sums[keyClass[f]] = c
	}
	return keyClass, sums
}

func parseIP(s string) []byte {
	a, err := netip.ParseAddr(s)
	if err != nil {
		return nil
	}
	return a.AsSlice()
}
