package capture

import (
	"bytes"
	"fmt"

	gpcapture "github.com/els0r/goProbe/v4/pkg/capture"
	"github.com/els0r/goProbe/v4/pkg/capture/capturetypes"

	"verif/sim"
)

// bufItem is one element of the reference FIFO.
type bufItem struct {
	key   []byte
	ptype byte
	size  uint32
	v4    bool
	aux   byte
	errno capturetypes.ParsingErrno
}

func (i bufItem) String() string {
	return fmt.Sprintf("{key %x type %#x size %d v4 %v aux %#x errno %d}", i.key, i.ptype, i.size, i.v4, i.aux, i.errno)
}

// c23bare drives the real local packet buffer directly, against a reference FIFO: 1-4 lock
// cycles of inserts with all field values (keys of both IP versions, every packet type, aux byte,
// parse status and a 32-bit size), in one cycle of two interleaved with partial drains, each
// followed by a complete drain and a reset, with the size limit drawn around the growth steps. Used by one C23 run in three; the others exercise the
// buffer in situ (captureRun).
func c23bare(r *sim.R) *sim.Violation {
	t := r.T
	limit := []int{4096, 4097, 4100, 4117, 4125, 4141, 6000, 8192, 8193, 8213, 12288, 100000, 1 << 20}[t.Draw(13)]
	pool := gpcapture.NewLocalBufferPool(1, limit)
	buf := gpcapture.NewLocalBuffer(pool)
	buf.Assign(pool.Get(4096)) // what the three-point lock hands to the capture: the pool element at its initial size
	r.Event("bare buffer, limit %d", limit)
	r.Nontriv = true
	errnos := []capturetypes.ParsingErrno{capturetypes.ErrnoOK, capturetypes.ErrnoOK, capturetypes.ErrnoOK, capturetypes.ErrnoPacketFragmentIgnore, capturetypes.ErrnoInvalidIPHeader, capturetypes.ErrnoPacketTruncated}
	for cycle, nCycles := 0, 1+t.Draw(4); cycle < nCycles; cycle++ {
		var ref []bufItem
		used := 0
		n := t.Draw(40)
		switch t.Draw(4) {
		case 0:
			n = 150 + t.Draw(400) // across the growth steps and up to the limit
		case 1:
			n = limit/21 - 3 + t.Draw(8) // right around the limit
			if n > 6000 {
				n = 6000
			}
		}
		refusals := 0
		head := 0 // ref[:head] has been taken out again
		// one cycle in two interleaves partial drains with the inserts (the capture drains only
		// once, at the end; the property is stated for all sequences of inserts and drains)
		interleaved := t.Draw(2) == 0
		takeOne := func() *sim.Violation {
			k, want := head, ref[head]
			key, ptype, size, v4, aux, errno, ok := buf.Next()
			if !ok {
				return r.Report(&sim.Violation{Clause: "buffered-item-lost", Signature: "bare buffer",
					Detail: fmt.Sprintf("cycle %d (limit %d, %d inserts, %d refused, interleaved drains %v): drain ended after %d of %d accepted items", cycle, limit, n, refusals, interleaved, k, len(ref))})
			}
			head++
			got := bufItem{key: key, ptype: ptype, size: size, v4: v4, aux: aux, errno: errno}
			if !bytes.Equal(got.key, want.key) || got.ptype != want.ptype || got.size != want.size || got.v4 != want.v4 || got.aux != want.aux || got.errno != want.errno {
				field := "key"
				switch {
				case got.v4 != want.v4:
					field = "IP version"
				case !bytes.Equal(got.key, want.key):
					field = "key"
				case got.ptype != want.ptype:
					field = "packet type"
				case got.size != want.size:
					field = "size"
				case got.aux != want.aux:
					field = "aux byte"
				case got.errno != want.errno:
					field = "parse status"
				}
				return r.Report(&sim.Violation{Clause: "buffered-item-altered", Signature: "bare buffer: " + field,
					Detail: fmt.Sprintf("cycle %d (limit %d, interleaved drains %v): item %d of %d went in as %s and came out as %s", cycle, limit, interleaved, k, len(ref), want, got)})
			}
			return nil
		}
		for k := 0; k < n; k++ {
			if interleaved && t.Draw(6) == 0 {
				for j, m := 0, 1+t.Draw(8); j < m && head < len(ref); j++ {
					if v := takeOne(); v != nil {
						return v
					}
				}
				r.Probe("bare_buffer_partial_drain")
			}
			it := bufItem{v4: t.Draw(3) != 0, ptype: byte(t.Draw(256)), aux: byte(t.Draw(256)), errno: errnos[t.Draw(len(errnos))]}
			it.size = []uint32{uint32(40 + t.Draw(1460)), 65535, 65536, 1 << 24, 0xFFFFFFFF, 0}[t.Draw(6)]
			kl := 37
			if it.v4 {
				kl = 13
			}
			it.key = t.Bytes(kl, 2)
			need := kl + 8
			ok := buf.Add(it.key, it.ptype, it.size, it.v4, it.aux, it.errno)
			if ok {
				ref = append(ref, it)
				used += need
				continue
			}
			refusals++
			r.Probe("bare_buffer_refusal")
			// a refusal is legitimate only when the buffer has (all but) reached its limit; the
			// footprint of an element is not part of the contract, so only clear cases are judged:
			// less than half of the limit in use by the most generous accounting (items taken out
			// in between still count: the buffer is only emptied by a reset)
			if 2*(used+need) <= limit && limit >= 4096 {
				return r.Report(&sim.Violation{Clause: "packet-refused-before-the-limit", Signature: "bare buffer",
					Detail: fmt.Sprintf("cycle %d: insert %d (%s) refused with about %d of %d bytes in use", cycle, k, it, used, limit)})
			}
		}
		// drain: exactly the accepted items, in order, every field intact
		for head < len(ref) {
			if v := takeOne(); v != nil {
				return v
			}
		}
		if _, _, _, _, _, _, ok := buf.Next(); ok {
			return r.Report(&sim.Violation{Clause: "phantom-item-drained", Signature: "bare buffer",
				Detail: fmt.Sprintf("cycle %d (limit %d, %d refused inserts): the drain returns more than the %d accepted items", cycle, limit, refusals, len(ref))})
		}
		buf.Reset()
	}
	return nil
}
