package query

import (
	"context"
	"fmt"
	"sort"
	"strings"
	"sync"
	"time"

	"github.com/els0r/goProbe/v4/pkg/capture/capturetypes"
	"github.com/els0r/goProbe/v4/pkg/goDB"
	"github.com/els0r/goProbe/v4/pkg/goDB/engine"

	"verif/dbcheck"
	"verif/model"
	"verif/sim"
	"verif/simfs"
)

type woRec struct {
	iface      string
	blk        model.Block
	start, end int // scheduler step at which the write-out started / returned (-1: not yet)
}

// C30: a writer process performs write-outs while reader processes query and list the same
// database; the scheduler decides the interleaving of their file-system operations.
func c30(r *sim.R) *sim.Violation {
	wd := newWorld(r)
	defer simfs.Install(wd.fs)()
	t := r.T
	// committed before anything runs
	ts := sim.Pick(t, []int64{1700000100, 1700006100 - 600, 1701388500 - 300, 1704066900 - 600})
	var recs []*woRec
	m0 := model.NewStore()
	if t.Draw(6) == 0 {
		// 31 older days, so that the current day is the 32nd directory of the range and a day the
		// writer starts during the query is alone in the next bulk of 32 directories of a worker
		for k := 31; k >= 1; k-- {
			b := model.FlowBlock(ts-int64(k)*86400, model.GenFlows(t, 2, true), 0)
			m0.Add("eth0", b)
			recs = append(recs, &woRec{iface: "eth0", blk: b, start: -2, end: -2})
		}
		r.Probe("range_of_32_day_directories")
	}
	for i, n := 0, 1+t.Draw(3); i < n; i++ {
		ts += 300
		b := model.FlowBlock(ts, model.GenFlows(t, 5, true), 0)
		m0.Add("eth0", b)
		recs = append(recs, &woRec{iface: "eth0", blk: b, start: -2, end: -2})
	}
	build(m0, t)
	nW := 1 + t.Draw(4)
	for i := 0; i < nW; i++ {
		ts += 300 // some of these cross into a new day / month / year
		recs = append(recs, &woRec{iface: "eth0", blk: model.FlowBlock(ts, model.GenFlows(t, 5, true), uint64(t.Draw(3))), start: -1, end: -1})
	}
	nQ := 1 + t.Draw(3)
	sc := sim.NewSched(r)
	names := map[int64]string{}
	var namesMu sync.Mutex
	wd.fs.Yield = func(op *simfs.Op) {
		id := sim.GoID()
		namesMu.Lock() // reader workers and the writer reach operations concurrently
		n, ok := names[id]
		if !ok {
			n = op.Proc.Name + ":" + string(op.Kind) + " " + op.Path
			names[id] = n
		}
		namesMu.Unlock()
		sc.Yield(n, string(op.Kind)+" "+op.Path)
	}
	defer func() { wd.fs.Yield = nil }()
	restore := engine.VerifSetNumProcessingUnits(1 + t.Draw(2))
	defer restore()
	enc := sim.Pick(t, encPool)
	wdone := make(chan struct{})
	var werr error
	go func() {
		defer close(wdone)
		sc.Yield("w", "start")
		for _, rec := range recs {
			if rec.start != -1 {
				continue
			}
			rec.start = sc.StepCount()
			w := goDB.NewDBWriter(wdb, rec.iface, enc)
			if err := w.Write(model.ToAggFlowMap(rec.blk.Flows), capturetypes.CaptureStats{Dropped: rec.blk.Traffic.Drops}, rec.blk.TS); err != nil {
				werr = fmt.Errorf("write-out of block %d: %w", rec.blk.TS, err)
				return
			}
			rec.end = sc.StepCount()
		}
	}()
	type qres struct {
		kind       string
		start, end int
		rows       []string
		corrupted  uint64
		err        error
		flows      uint64
		tlast      int64 // upper bound of a listing
	}
	var results []*qres
	rdone := make(chan struct{})
	q := &model.Query{Attrs: []string{"sip", "dip", "dport", "proto"}, Time: true, IfaceAttr: true, Ifaces: []string{"eth0"}, First: 1, Last: 4102444800}
	go func() {
		defer close(rdone)
		sc.Yield("r", "start")
		for i := 0; i < nQ; i++ {
			qr := &qres{start: sc.StepCount()}
			if t.Draw(3) == 0 {
				qr.kind = "listing"
				// the upper bound: far in the future, or on / between the blocks being written (the
				// listing then subtracts the blocks after the bound from the day's totals, which it
				// reads at another moment than the totals themselves)
				qr.tlast = 4102444800
				if k := t.Draw(4); k > 0 {
					rec := recs[t.Draw(len(recs))]
					qr.tlast = rec.blk.TS + []int64{0, 0, 150, -1}[k]
				}
				md, err := dbcheck.Listing(rdb, "eth0", 1, qr.tlast)
				qr.err = err
				if md != nil {
					qr.flows = md.Traffic.NumV4Entries + md.Traffic.NumV6Entries
				}
			} else {
				qr.kind = "query"
				res, err := runQuery(context.Background(), q, t.Draw(2) == 1)
				qr.err = err
				if res != nil {
					qr.rows = canonRows(q, res.Rows)
					if res.Summary.Stats != nil {
						qr.corrupted = res.Summary.Stats.BlocksCorrupted
					}
				}
			}
			qr.end = sc.StepCount()
			results = append(results, qr)
		}
	}()
	idle := 0
	sc.Idle = func() bool {
		idle++
		if idle > 600 {
			return false
		}
		sim.AdvanceClock(time.Second)
		return true
	}
	stall := sc.Run(func() bool {
		select {
		case <-wdone:
			select {
			case <-rdone:
				return true
			default:
			}
		default:
		}
		return false
	}, 400000)
	sc.Stop()
	r.Event("strategy=%s steps=%d preemptions=%d queries=%d writeouts=%d", sc.Strategy(), sc.Steps, sc.Preempts, nQ, nW)
	if stall != "" {
		return r.Report(&sim.Violation{Clause: "does-not-finish", Signature: "reader and writer", Detail: stall + "\n" + blockedSummary()})
	}
	if werr != nil {
		return r.Report(&sim.Violation{Clause: "writer-fails", Signature: "write-out fails while a reader is active", Detail: werr.Error()})
	}
	// oracle over the recorded history
	for _, qr := range results {
		overlap := false
		for _, rec := range recs {
			if rec.start >= 0 && rec.start < qr.end && (rec.end < 0 || rec.end > qr.start) {
				overlap = true
			}
		}
		if overlap {
			r.Nontriv = true
			r.Probe("query_overlapped_a_writeout")
		}
		// what was in flight (for signatures): first write-out of a day or not
		newDay := false
		for i, rec := range recs {
			if rec.start >= 0 && rec.start < qr.end && (rec.end < 0 || rec.end > qr.start) {
				if i == 0 || model.DayOf(recs[i-1].blk.TS) != model.DayOf(rec.blk.TS) {
					newDay = true
				}
			}
		}
		sig := "write-out to a day that already has blocks in flight"
		if newDay {
			sig = "first write-out of a day in flight"
		}
		if !overlap {
			sig = "no write-out in flight"
		}
		if qr.err != nil {
			if v := r.Report(&sim.Violation{Clause: qr.kind + "-fails", Signature: sig, Detail: fmt.Sprintf("%s during steps [%d,%d]: %v", qr.kind, qr.start, qr.end, qr.err)}); v != nil {
				return v
			}
			continue
		}
		// per day: lower and upper bound of the visible prefix
		type bound struct {
			blocks []*woRec
			lo, hi int
		}
		days := map[int64]*bound{}
		var dayKeys []int64
		for _, rec := range recs {
			d := model.DayOf(rec.blk.TS)
			b := days[d]
			if b == nil {
				b = &bound{}
				days[d] = b
				dayKeys = append(dayKeys, d)
			}
			b.blocks = append(b.blocks, rec)
			if rec.end == -2 || (rec.end >= 0 && rec.end <= qr.start) {
				b.lo = len(b.blocks)
			}
			if rec.start == -2 || (rec.start >= 0 && rec.start <= qr.end) {
				b.hi = len(b.blocks)
			}
		}
		if qr.kind == "listing" {
			var lo, hi uint64
			for _, d := range dayKeys {
				b := days[d]
				for i, rec := range b.blocks {
					n := rec.blk.Traffic.V4 + rec.blk.Traffic.V6
					if rec.blk.TS > qr.tlast {
						continue
					}
					if i < b.lo {
						lo += n
					}
					if i < b.hi {
						hi += n
					}
				}
			}
			if qr.flows < lo || qr.flows > hi {
				if v := r.Report(&sim.Violation{Clause: "listing-inconsistent", Signature: sig, Detail: fmt.Sprintf("listing up to %d during steps [%d,%d] reports %d flows; blocks in range completed before it hold %d, blocks in range started before its end hold %d", qr.tlast, qr.start, qr.end, qr.flows, lo, hi)}); v != nil {
					return v
				}
			}
			continue
		}
		if qr.corrupted != 0 {
			if v := r.Report(&sim.Violation{Clause: "blocks-reported-corrupted", Signature: sig, Detail: fmt.Sprintf("query during steps [%d,%d] reports %d corrupted blocks although nothing is damaged", qr.start, qr.end, qr.corrupted)}); v != nil {
				return v
			}
		}
		byTS := map[int64][]string{}
		for _, row := range qr.rows {
			var ts int64
			fmt.Sscan(row[:strings.IndexByte(row, '|')], &ts)
			byTS[ts] = append(byTS[ts], row)
		}
		for _, d := range dayKeys {
			b := days[d]
			n := 0
			gap := false
			for i, rec := range b.blocks {
				one := model.NewStore()
				one.Add("eth0", rec.blk)
				want, _ := q.Eval(one, false)
				got := byTS[rec.blk.TS]
				sort.Strings(got)
				delete(byTS, rec.blk.TS)
				present := len(got) > 0 || len(want) == 0
				if len(want) == 0 {
					continue // an empty block is invisible in rows
				}
				if !present {
					gap = true
					continue
				}
				if gap {
					if v := r.Report(&sim.Violation{Clause: "not-a-prefix", Signature: sig, Detail: fmt.Sprintf("day %d: block %d (ts %d) is visible but an earlier block of the day is not", d, i, rec.blk.TS)}); v != nil {
						return v
					}
				}
				if diff := dbcheck.DiffRows(want, got); diff != "" {
					if v := r.Report(&sim.Violation{Clause: "block-half-visible", Signature: sig, Detail: fmt.Sprintf("day %d block ts %d: %s", d, rec.blk.TS, diff)}); v != nil {
						return v
					}
				}
				n = i + 1
			}
			// empty blocks do not count against the bounds
			lo := 0
			for i := 0; i < b.lo; i++ {
				if len(b.blocks[i].blk.Flows) > 0 {
					lo = i + 1
				}
			}
			if n < lo || n > b.hi {
				if v := r.Report(&sim.Violation{Clause: "snapshot-out-of-bounds", Signature: sig,
					Detail: fmt.Sprintf("day %d: query during steps [%d,%d] shows %d blocks; %d were complete before it started, %d had started before it ended", d, qr.start, qr.end, n, lo, b.hi)}); v != nil {
					return v
				}
			}
		}
		for ts, rows := range byTS {
			if v := r.Report(&sim.Violation{Clause: "unknown-block", Signature: sig, Detail: fmt.Sprintf("rows for timestamp %d that was never written: %v", ts, rows)}); v != nil {
				return v
			}
		}
	}
	return nil
}
