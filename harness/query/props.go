package query

import "verif/h"

var realQuery = []string{"engine.QueryRunner (Run, RunStatement, aggregate)", "goDB.DBWorkManager (walk, work queue, workers)", "conditions (tokenizer, parser, desugaring, instrumentation)", "query.Args.Prepare", "hashmap", "results", "gpfile reader", "goDB.DBWriter (database construction)", "encoders (cgo)"}
var stubQuery = []string{"disk (verif/simfs)"}

// Props are the properties served by the query-sim engine.
var Props = []*h.Prop{
	{ID: "C08", Run: c08, Bubble: true,
		Rule:        "one evaluation = one generated database (1-3 interfaces, up to 4 days, IPv4/IPv6 mixes incl. addresses with zero low bytes) with 6-15 generated queries (attribute subsets, time/iface labels, condition trees of depth <= 3 over all attributes/comparators/sugar with IPv4 and IPv6 literals and networks of every prefix length, ranges on/around block stamps and day boundaries, direction filters, interface subsets; 1-16 workers, low-mem on/off) compared with the reference aggregation; non-trivial = every run; distinct = distinct event-log hash",
		Real:        realQuery,
		Stub:        stubQuery,
		Assumptions: []string{"conditions are evaluated with the semantics stated in C09 ('!=' is the complement of '=', address comparisons true only within one family)", "row order is not compared (C14 is not claimed)"}},
	{ID: "C11", Run: c11, Bubble: true,
		Rule:        "one evaluation = one generated database (1-80 days; in one run of three followed by one or two day directories without metadata, as left by a writer that has just started the day) and query executed under 3-5 configurations (workers 1-16 via the guarded hook, low-memory on/off) each under a seeded schedule (uniform / burst / priority with change points / run-to-completion) that decides at every file-system operation which worker goroutine proceeds; results compared with the sequential run and the reference model; one run in eight is a termination run over 2047-2112 day directories with one worker; non-trivial = at least two worker goroutines were parked at once (the schedule had a choice) or a termination run; distinct = distinct event-log hash including every scheduling decision",
		Real:        realQuery,
		Stub:        stubQuery,
		Assumptions: []string{"interleavings are controlled at file-system operations (every open/read/seek/stat/close/readdir); code between two operations runs under the Go scheduler", "termination = the query returns within one simulated hour of idling once no goroutine can proceed"}},
	{ID: "C30", Run: c30, Bubble: true,
		Rule:        "one evaluation = one run of a writer process (1-4 write-outs, some crossing a day/month/year boundary, each commit renaming the day directory) and a reader process (1-3 queries with time labels or listings, 1-2 workers) over one database, with a seeded schedule (uniform / burst / priority / run-to-completion with preemption) deciding at every file-system operation of either process who proceeds; the recorded history (start/end step of every write-out and query) is checked: no error, no corrupted blocks, per day a prefix of the committed blocks within [completed before start, started before end], every visible block exact; non-trivial = a query overlapped a write-out; distinct = distinct event-log hash including scheduling decisions",
		Real:        realQuery,
		Stub:        stubQuery,
		Assumptions: []string{"the property's model-checked clause is a different technique and is not claimed; this is exploration of the real reader and writer", "interleavings are controlled at file-system operations"}},
	{ID: "C06", Run: c06, Bubble: true,
		Rule:        "one evaluation = one valid database (2 interfaces x 3 days x 1-4 blocks) written by the real writer, 1-3 stored-byte damage faults (truncation, bit flips, garbage range, emptied, deleted, swapped files, file of another day, trailing garbage, a flipped bit or zeroed byte in the first bytes of a stored block) applied to the column or metadata files of one (interface, day) - in one run of three one of the faults strikes while the first query runs, after a drawn number of its file-system operations - then three queries with time and interface labels (all data, victim interface only, victim day as first/last directory; 1-4 workers, low-mem on/off) and both interface summaries; non-trivial = at least one damage fault applied; distinct = distinct event-log hash",
		Real:        realQuery,
		Stub:        stubQuery,
		Assumptions: []string{"silent damage cannot be detected (the format has no checksums): rows attributed to the damaged day are unconstrained", "the statistics clause is applied only when the metadata is intact", "length fields in damaged metadata are clamped to 64 MiB (see the C03 finding on allocation)"}},
	{ID: "C31", Run: c31, Bubble: true,
		Rule:        "one evaluation = K in 1..3 slots, K+1..3K+2 client goroutines issuing 1-2 queries each at drawn simulated instants through query runners sharing one semaphore; per call: success, I/O error on the interface listing (after the slot was taken), or cancellation at a drawn file-system operation; the seeded scheduler interleaves the clients at every file-system operation and (in two of three runs) advances the fake clock so that semaphore time-outs expire; checked over the recorded history: executing <= K at every step, 'too many requests' only if all K slots were held throughout the caller's waiting window, no slot held after quiescence, K fresh queries succeed, every caller returns; non-trivial = K queries were executing while another client was waiting or rejected; distinct = distinct event-log hash",
		Real:        append([]string{"engine.QueryRunner.checkSemaphore / smeDone", "gotools/concurrency.Semaphore (TryAddFor, fake clock)"}, realQuery...),
		Stub:        stubQuery,
		Assumptions: []string{"every client uses its own QueryRunner (and mount alias) on the shared semaphore; the API server's single shared runner keeps per-query state, and cross-talk between concurrent different queries is not part of this property", "the distributed variant is the dist-sim part of this check"}},
}
