package query

import (
	"context"
	"fmt"
	"sort"
	"strings"
	"time"

	"github.com/els0r/goProbe/v4/pkg/goDB/engine"
	"github.com/els0r/goProbe/v4/pkg/results"

	"verif/dbcheck"
	"verif/model"
	"verif/sim"
	"verif/simfs"
)

// C06: stored-byte damage of the files of one (interface, day) of a valid database; every other
// day must come back exactly, nothing may crash, skipped blocks must be counted.
func c06(r *sim.R) *sim.Violation {
	t := r.T
	wd := newWorld(r)
	defer simfs.Install(wd.fs)()
	// valid database: 2 interfaces x 3 days x 1-4 blocks
	m := model.NewStore()
	days := []int64{1700006400, 1700092800, 1700179200}
	for _, iface := range []string{"eth0", "eth1"} {
		for _, d := range days {
			nb := 1 + t.Draw(4)
			for b := 0; b < nb; b++ {
				flows := model.GenFlows(t, 8, true)
				if len(flows) == 0 {
					flows = []model.Flow{model.GenFlow(t, true)}
				}
				m.Add(iface, model.FlowBlock(d+300*int64(b+1), flows, uint64(t.Draw(3))))
			}
		}
	}
	build(m, t)
	// choose the victim day and damage 1-3 of its files
	vIface := []string{"eth0", "eth1"}[t.Draw(2)]
	vDay := days[t.Draw(3)]
	names := dbcheck.DayDirNames(wd.fs, tree, rel, vIface, vDay)
	if len(names) != 1 {
		panic(simfs.HarnessError{Msg: "victim day not found"})
	}
	dir := dbcheck.DayPath(rel, vIface, vDay, names[0])
	files := wd.fs.Files(tree, dir)
	sort.Strings(files)
	wd.fs.Restart("r")
	extents, xerr := dbcheck.BlockExtents(rdb+"/"+vIface, vDay, names[0])
	if xerr != nil {
		panic(simfs.HarnessError{Msg: "victim day unreadable before the damage: " + xerr.Error()})
	}
	metaDamaged := false
	var what []string
	// damageOne damages one file of the victim day (kind and position drawn)
	damageOne := func() {
		f := files[t.Draw(len(files))]
		if t.Draw(3) == 0 {
			f = dir + "/.blockmeta"
		}
		isMeta := strings.HasSuffix(f, ".blockmeta")
		b, ok := wd.fs.ReadRaw(tree, f)
		if !ok {
			return
		}
		kind := ""
		switch t.Draw(10) {
		case 8, 9:
			// a stored block's first bytes (bit-pack width / frame header of a block), not a
			// uniformly drawn position: one flipped bit or a zeroed byte
			ext := extents[f[strings.LastIndex(f, "/")+1:]]
			if len(ext) == 0 || isMeta {
				kind = "untouched"
				break
			}
			e := ext[t.Draw(len(ext))]
			if e[1] == 0 || e[0] >= len(b) {
				kind = "untouched"
				break
			}
			pos := e[0] + t.Draw(min(e[1], 3))
			if pos >= len(b) {
				pos = e[0]
			}
			if t.Bool() {
				b[pos] ^= 1 << uint(t.Draw(8))
				kind = "bit flip at the start of a block"
			} else {
				b[pos] = 0
				kind = "zeroed byte at the start of a block"
			}
		case 7:
			// one field of the metadata (not a uniformly drawn position): the block count, the
			// version, the day summary, or a descriptor / timestamp byte behind the header
			f, isMeta = dir+"/.blockmeta", true
			if b, ok = wd.fs.ReadRaw(tree, f); !ok || len(b) < 72 {
				kind = "untouched"
				break
			}
			pos, field := 0, ""
			switch t.Draw(4) {
			case 0, 1:
				pos, field = 8+t.Draw(8), "block count"
			case 2:
				pos, field = []int{t.Draw(8), 16 + t.Draw(56)}[t.Draw(2)], "version or day summary"
			default:
				pos, field = 72, "descriptors and timestamps"
				if len(b) > 73 {
					pos += t.Draw(len(b) - 72)
				}
			}
			if pos >= len(b) {
				kind = "untouched"
				break
			}
			switch t.Draw(3) {
			case 0:
				b[pos] = 0xff
			case 1:
				b[pos] = 0
			default:
				b[pos] ^= 1 << uint(t.Draw(8))
			}
			kind = "metadata field damaged: " + field
		case 0:
			n := 0
			if len(b) > 0 {
				n = t.Draw(len(b))
			}
			b, kind = b[:n], fmt.Sprintf("truncated to %d bytes", n)
		case 1:
			for j, n := 0, 1+t.Draw(4); j < n && len(b) > 0; j++ {
				b[t.Draw(len(b))] ^= 1 << uint(t.Draw(8))
			}
			kind = "bit flips"
		case 2:
			if len(b) > 0 {
				a := t.Draw(len(b))
				copy(b[a:], t.Bytes(1+t.Draw(64), 2))
			}
			kind = "garbage range"
		case 3:
			b, kind = nil, "emptied"
		case 4:
			wd.fs.RemoveRaw(tree, f)
			kind = "deleted"
			b = nil
		case 5:
			g := files[t.Draw(len(files))]
			if gb, ok := wd.fs.ReadRaw(tree, g); ok && g != f {
				wd.fs.WriteRaw(tree, g, b)
				b = gb
				isMeta = isMeta || strings.HasSuffix(g, ".blockmeta")
			}
			kind = "swapped with " + g[strings.LastIndex(g, "/")+1:]
		case 6:
			// bytes of the same file of another day
			od := days[t.Draw(3)]
			on := dbcheck.DayDirNames(wd.fs, tree, rel, vIface, od)
			if len(on) == 1 {
				if ob, ok := wd.fs.ReadRaw(tree, dbcheck.DayPath(rel, vIface, od, on[0])+f[strings.LastIndex(f, "/"):]); ok {
					b = ob
				}
			}
			kind = "replaced by the file of another day"
		default:
			b = append(b, t.Bytes(1+t.Draw(200), 2)...)
			kind = "trailing garbage"
		}
		if kind == "untouched" {
			return
		}
		if kind != "deleted" {
			if isMeta {
				clampMetaLens(b, 1<<26)
			}
			wd.fs.WriteRaw(tree, f, b)
		}
		metaDamaged = metaDamaged || isMeta
		what = append(what, fmt.Sprintf("%s: %s", f[strings.LastIndex(f, "/")+1:], kind))
		r.Fault("stored-byte-damage:" + strings.Fields(kind)[0])
	}
	nDmg := 1 + t.Draw(3)
	// one run in three injects one of the faults while the first query is running (after a drawn
	// number of its file-system operations: after the metadata was read, between column reads, ...)
	midAt := -1
	if t.Draw(3) == 0 {
		midAt = t.Draw(150)
		nDmg = t.Draw(2)
	}
	// one run in five (of those without a mid-query fault): exactly one fault, confined to ONE block -
	// the encoder type in its descriptor made unusable, or a bit / byte at the start of its stored
	// bytes in one column. Then the other blocks of the same day are held to the model as well.
	blockLocal, victimTS := false, int64(-1)
	if vb := m.Ifaces[vIface][vDay].Blocks; midAt < 0 && t.Draw(5) == 0 && len(vb) > 0 {
		blockLocal, nDmg = true, 0
		k := t.Draw(len(vb))
		if t.Bool() {
			f := dir + "/.blockmeta"
			b, ok := wd.fs.ReadRaw(tree, f)
			pos := 72 + t.Draw(8)*(8+9*len(vb)) + 8 + 9*k + 8
			if !ok || pos >= len(b) || b[pos] < 1 || b[pos] > 3 {
				panic(simfs.HarnessError{Msg: fmt.Sprintf("metadata layout: no encoder type at offset %d of %s (%d blocks)", pos, f, len(vb))})
			}
			b[pos] = []byte{0, 4, 9, 0x80, 0xff}[t.Draw(5)]
			wd.fs.WriteRaw(tree, f, b)
			what = append(what, fmt.Sprintf(".blockmeta: encoder type of block %d of one column set to %#x", k, b[pos]))
			r.Fault("stored-byte-damage:encoder-type")
			victimTS = vb[k].TS
		} else {
			f := files[t.Draw(len(files))]
			if ext := extents[f[strings.LastIndex(f, "/")+1:]]; !strings.HasSuffix(f, ".blockmeta") && k < len(ext) && ext[k][1] > 0 {
				if b, ok := wd.fs.ReadRaw(tree, f); ok && ext[k][0] < len(b) {
					pos := ext[k][0] + t.Draw(min(ext[k][1], 3))
					if pos >= len(b) {
						pos = ext[k][0]
					}
					if t.Bool() {
						b[pos] ^= 1 << uint(t.Draw(8))
					} else {
						b[pos] ^= 0xff
					}
					wd.fs.WriteRaw(tree, f, b)
					what = append(what, fmt.Sprintf("%s: byte %d of block %d altered", f[strings.LastIndex(f, "/")+1:], pos-ext[k][0], k))
					r.Fault("stored-byte-damage:block-start")
					victimTS = vb[k].TS
				}
			}
		}
		if victimTS < 0 {
			blockLocal = false
		}
	}
	for i := 0; i < nDmg; i++ {
		damageOne()
	}
	r.Nontriv = len(what) > 0
	r.Event("victim %s/%d: %s (mid-query fault at operation %d)", vIface, vDay, strings.Join(what, "; "), midAt)
	sig := ""
	setSig := func() {
		sig = "column files damaged, all present"
		for _, w := range what {
			if strings.HasSuffix(w, ": deleted") {
				sig = "column file deleted"
			}
		}
		if metaDamaged {
			sig = "metadata damaged"
		}
		if blockLocal {
			sig = "one block damaged (encoder type in its descriptor, or its first stored bytes)"
		}
	}
	setSig()
	// queries
	for qi := 0; qi < 3; qi++ {
		q := &model.Query{Attrs: []string{"sip", "dip", "dport", "proto"}, Time: true, IfaceAttr: true, Ifaces: []string{"eth0", "eth1"}, First: 1, Last: 4102444800}
		if qi == 1 {
			q.Ifaces = []string{vIface}
			q.Attrs = []string{"dport", "proto"}
		}
		if qi == 2 {
			// the victim day is the first or last directory of the range
			q.First, q.Last = vDay, vDay+86399
			q.Ifaces = []string{vIface}
		}
		workers := []int{1, 2, 4}[t.Draw(3)]
		fired := false
		if qi == 0 && midAt >= 0 {
			// a sequential reader over one interface, so that "the k-th operation of the query" is
			// well defined (the engine visits several interfaces in Go map order)
			workers = 1
			q.Ifaces = []string{vIface}
			ops := 0
			wd.fs.Yield = func(op *simfs.Op) {
				if op.Proc.Name != "r" || fired {
					return
				}
				if ops++; ops > midAt {
					fired = true
					n := len(what)
					damageOne()
					if len(what) > n {
						r.Fault("damage-while-the-query-runs")
						r.Event("  after operation %d of the query (%s %s): %s", midAt, op.Kind, canonOp(op.Path), what[len(what)-1])
					}
				}
			}
		}
		restore := engine.VerifSetNumProcessingUnits(workers)
		wd.fs.Restart("r")
		// the query runs under a liveness budget of two simulated hours: a reader that waits for
		// something that never comes (a pool buffer that was not given back, a full channel) does
		// not stop the fake clock - the engine's own tickers keep it going - so the bubble would
		// never report a deadlock
		lowMem := t.Draw(2) == 1
		var res *results.Result
		var err error
		qctx, qcancel := context.WithCancel(context.Background())
		qdone := make(chan struct{})
		go func() {
			defer close(qdone)
			res, err = runQuery(qctx, q, lowMem)
		}()
		hung := false
		select {
		case <-qdone:
		case <-time.After(2 * time.Hour):
			hung = true
		}
		qcancel()
		restore()
		if hung {
			wd.fs.Yield = nil
			if fired {
				// a different fault class than bytes found at rest: the file changed between two
				// steps of the reader (e.g. it shrank between the size query and the read that
				// fills the in-memory copy)
				sig = "a file is damaged while the query is reading it"
			}
			return r.Report(&sim.Violation{Clause: "query-does-not-return", Signature: sig, Detail: fmt.Sprintf("%s (workers=%d lowmem=%v)\ndamage: %s\nno result after two simulated hours\n%s", describe(q), workers, lowMem, strings.Join(what, "; "), blockedSummary())})
		}
		wd.fs.Yield = nil
		if fired {
			r.Nontriv = len(what) > 0
			setSig() // same classes as damage found at rest: what fails does not depend on when the file broke
			what = append(what, fmt.Sprintf("(the last fault struck while the query was running, after %d of its file-system operations)", midAt))
		}
		if err != nil {
			if v := r.Report(&sim.Violation{Clause: "query-fails", Signature: sig, Detail: fmt.Sprintf("%s\ndamage: %s\nerror: %v", describe(q), strings.Join(what, "; "), err)}); v != nil {
				return v
			}
			continue
		}
		// rows of undamaged days must be exact
		clean := model.NewStore()
		var victimBlocks []model.Block
		for _, iface := range q.Ifaces {
			for _, d := range m.Days(iface) {
				for _, b := range m.Ifaces[iface][d].Blocks {
					if iface == vIface && d == vDay {
						if b.TS >= q.First && b.TS <= q.Last {
							victimBlocks = append(victimBlocks, b)
						}
						continue
					}
					clean.Add(iface, b)
				}
			}
		}
		want, _ := q.Eval(clean, false)
		var got []string
		victimRows := map[int64]int{}
		for _, row := range canonRows(q, res.Rows) {
			parts := strings.SplitN(row, "|", 3)
			var ts int64
			fmt.Sscan(parts[0], &ts)
			if parts[1] == vIface && model.DayOf(ts) == vDay {
				victimRows[ts]++
				continue
			}
			got = append(got, row)
		}
		if d := dbcheck.DiffRows(want, got); d != "" {
			// a narrower class first: nothing is missing, and every surplus row belongs to the
			// victim interface and carries a time label that no block was ever written with -
			// blocks of the damaged day whose timestamp in the damaged metadata now lies in another day
			if metaDamaged && foreignStampsOnly(want, got, vIface, m) {
				if v := r.Report(&sim.Violation{Clause: "rows-of-damaged-day-labelled-with-another-day", Signature: "block timestamp altered in damaged metadata",
					Detail: fmt.Sprintf("%s\ndamage to %s/%d: %s\n%s", describe(q), vIface, vDay, strings.Join(what, "; "), d)}); v != nil {
					return v
				}
				continue
			}
			csig := sig
			if metaDamaged {
				csig = "metadata of an inner day of the range damaged"
				if vDay == days[0] || vDay == days[len(days)-1] || q.First == vDay {
					csig = "metadata of the first or last day of the range damaged"
				}
			}
			if v := r.Report(&sim.Violation{Clause: "damage-not-contained", Signature: csig, Detail: fmt.Sprintf("%s\ndamage to %s/%d: %s\nrows of undamaged days differ: %s", describe(q), vIface, vDay, strings.Join(what, "; "), d)}); v != nil {
				return v
			}
		}
		// damage confined to one block: the other blocks of that day are exact as well
		if blockLocal {
			rest := model.NewStore()
			for _, iface := range q.Ifaces {
				for _, d := range m.Days(iface) {
					for _, b := range m.Ifaces[iface][d].Blocks {
						if !(iface == vIface && b.TS == victimTS) {
							rest.Add(iface, b)
						}
					}
				}
			}
			wantRest, _ := q.Eval(rest, false)
			var gotRest []string
			for _, row := range canonRows(q, res.Rows) {
				parts := strings.SplitN(row, "|", 3)
				var ts int64
				fmt.Sscan(parts[0], &ts)
				if !(parts[1] == vIface && ts == victimTS) {
					gotRest = append(gotRest, row)
				}
			}
			if d := dbcheck.DiffRows(wantRest, gotRest); d != "" {
				if v := r.Report(&sim.Violation{Clause: "damage-not-contained", Signature: "one block damaged: other blocks of the same day differ",
					Detail: fmt.Sprintf("%s (workers=%d lowmem=%v)\ndamage to %s/%d: %s\nrows of the other blocks (the damaged block is the one stamped %d): %s", describe(q), workers, lowMem, vIface, vDay, strings.Join(what, "; "), victimTS, d)}); v != nil {
					return v
				}
			}
			r.Probe("single_block_damage_checked")
		}
		// statistics: only judged when the metadata is intact (the reader knows the blocks)
		if !metaDamaged && res.Summary.Stats != nil {
			skipped := 0
			for _, b := range victimBlocks {
				if len(b.Flows) > 0 && victimRows[b.TS] == 0 {
					skipped++
				}
			}
			if int(res.Summary.Stats.BlocksCorrupted) < skipped {
				ssig := sig
				if len(res.Rows) == 0 {
					ssig = "result without any rows"
				}
				if v := r.Report(&sim.Violation{Clause: "skipped-blocks-not-counted", Signature: ssig, Detail: fmt.Sprintf("%s\ndamage: %s\n%d blocks of the damaged day contribute no rows, statistics count %d corrupted blocks (processed %d blocks, %d directories)", describe(q), strings.Join(what, "; "), skipped, res.Summary.Stats.BlocksCorrupted, res.Summary.Stats.BlocksProcessed, res.Summary.Stats.DirectoriesProcessed)}); v != nil {
					return v
				}
			}
			if skipped > 0 {
				r.Probe("blocks_skipped_and_counted")
			}
		}
	}
	// listing of the victim interface and of the other one
	for _, iface := range []string{"eth0", "eth1"} {
		wd.fs.Restart("r")
		md, err := dbcheck.Listing(rdb, iface, 1, 4102444800)
		if err != nil {
			if iface == vIface {
				// the summary of the damaged interface is derived from the damaged day: unconstrained
				r.Probe("listing_of_damaged_interface_fails")
			} else {
				return r.Report(&sim.Violation{Clause: "listing-of-undamaged-interface-fails", Signature: sig, Detail: err.Error()})
			}
			continue
		}
		if iface != vIface {
			var wt model.Traffic
			for _, d := range m.Days(iface) {
				dt, _ := m.Ifaces[iface][d].Totals()
				wt.V4 += dt.V4
				wt.V6 += dt.V6
			}
			if md.Traffic.NumV4Entries != wt.V4 || md.Traffic.NumV6Entries != wt.V6 {
				return r.Report(&sim.Violation{Clause: "damage-not-contained", Signature: sig, Detail: fmt.Sprintf("summary of undamaged interface %s changed", iface)})
			}
		}
	}
	return nil
}

// clampMetaLens bounds length fields of damaged metadata (see the C03 check for the rationale).
func clampMetaLens(b []byte, max uint32) {
	if len(b) < 16 {
		return
	}
	n := uint64(0)
	for j := 8; j < 16; j++ {
		n = n<<8 | uint64(b[j])
	}
	pos := 72
	for c := 0; c < 8; c++ {
		pos += 8
		for k := uint64(0); k < n; k++ {
			if pos+9 > len(b) {
				return
			}
			for _, o := range []int{pos, pos + 4} {
				v := uint32(b[o])<<24 | uint32(b[o+1])<<16 | uint32(b[o+2])<<8 | uint32(b[o+3])
				if v > max {
					v = max | v&0xffff
					b[o], b[o+1], b[o+2], b[o+3] = byte(v>>24), byte(v>>16), byte(v>>8), byte(v)
				}
			}
			pos += 9
		}
	}
}

// canonOp strips run-specific directory suffixes from a path for the event log.
func canonOp(p string) string {
	if i := strings.Index(p, "_"); i > 0 {
		if j := strings.IndexByte(p[i:], '/'); j > 0 {
			return p[:i] + p[i+j:]
		}
		return p[:i]
	}
	return p
}

// foreignStampsOnly reports whether got = want plus rows of the interface iface whose time label
// is not the timestamp of any block of the model.
func foreignStampsOnly(want, got []string, iface string, m *model.Store) bool {
	stamps := map[int64]bool{}
	for _, i := range m.IfaceNames() {
		for _, d := range m.Days(i) {
			for _, b := range m.Ifaces[i][d].Blocks {
				stamps[b.TS] = true
			}
		}
	}
	wm := map[string]int{}
	for _, s := range want {
		wm[s]++
	}
	surplus := 0
	for _, s := range got {
		if wm[s] > 0 {
			wm[s]--
			continue
		}
		parts := strings.SplitN(s, "|", 3)
		var ts int64
		fmt.Sscan(parts[0], &ts)
		if len(parts) < 3 || parts[1] != iface || stamps[ts] {
			return false
		}
		surplus++
	}
	for _, n := range wm {
		if n > 0 {
			return false
		}
	}
	return surplus > 0
}
