package query

import (
	"context"
	"fmt"
	"sort"
	"strings"
	"sync"
	"syscall"
	"time"

	"github.com/els0r/goProbe/v4/pkg/goDB/engine"
	"github.com/els0r/goProbe/v4/pkg/results"
	"github.com/els0r/goProbe/v4/pkg/types"

	"verif/model"
	"verif/sim"
	"verif/simfs"
)

// C31 (engine variant): C client goroutines issue queries through query runners that share one
// semaphore of K slots. Bursts, failures after the slot was taken (I/O error while listing the
// interfaces), cancellations and semaphore time-outs (fake clock) are interleaved by the scheduler.
func c31(r *sim.R) *sim.Violation {
	if r.T.Draw(3) == 0 {
		return c31srv(r)
	}
	t := r.T
	wd := newWorld(r)
	defer simfs.Install(wd.fs)()
	m := genStore(t, 3, 4, false)
	build(m, t)
	K := 1 + t.Draw(3)
	C := K + 1 + t.Draw(2*K+2)
	sem := make(chan struct{}, K)
	restore := engine.VerifSetNumProcessingUnits(1 + t.Draw(2))
	defer restore()
	q := &model.Query{Attrs: []string{"sip", "dport"}, Ifaces: m.IfaceNames()[:1], First: 1, Last: 4102444800} // one interface: see C11
	keepAlive := []time.Duration{0, 200*time.Millisecond + 7*time.Nanosecond, 3*time.Second + 7*time.Nanosecond}[t.Draw(3)]

	type call struct {
		client     int
		kind       string // ok, ioerror, cancel
		start, end int
		res        *results.Result
		err        error
		maxHeldMin int // minimum number of held slots observed while the call was pending
	}
	sc := sim.NewSched(r)
	sc.ClockChance = []int{0, 8, 30}[t.Draw(3)]
	sc.ClockMax = 1500 * time.Millisecond
	var mu sync.Mutex // harness bookkeeping is touched by client goroutines that may run concurrently
	executing := map[int]bool{}
	inCall := map[int]bool{}
	actorNames := map[int64]string{}
	maxExec := 0
	wd.fs.Yield = func(op *simfs.Op) {
		name := op.Proc.Name
		if !strings.HasPrefix(name, "c") {
			return
		}
		var id int
		fmt.Sscanf(name, "c%d", &id)
		mu.Lock()
		if inCall[id] { // operations of goroutines that outlive a returned (cancelled) call do not count
			executing[id] = true
		}
		mu.Unlock()
		gid := sim.GoID()
		mu.Lock()
		an, ok := actorNames[gid]
		if !ok {
			an = name + ":" + string(op.Kind) + " " + op.Path
			actorNames[gid] = an
		}
		mu.Unlock()
		sc.Yield(an, string(op.Kind)+" "+op.Path)
	}
	defer func() { wd.fs.Yield = nil }()
	var calls []*call
	pending := map[*call]bool{}
	sc.OnQuiescent = func() {
		held := len(sem)
		mu.Lock()
		defer mu.Unlock()
		if n := len(executing); n > maxExec {
			maxExec = n
		}
		for c := range pending {
			if held < c.maxHeldMin {
				c.maxHeldMin = held
			}
		}
	}
	done := make(chan struct{}, C)
	for ci := 0; ci < C; ci++ {
		alias := fmt.Sprintf("c%d", ci)
		wd.fs.Mount(alias, tree)
		nCalls := 1 + t.Draw(2)
		kinds := make([]string, nCalls)
		delays := make([]time.Duration, nCalls)
		cancelAt := make([]int, nCalls)
		for j := range kinds {
			kinds[j] = []string{"ok", "ok", "ioerror", "cancel"}[t.Draw(4)]
			delays[j] = time.Duration(t.Draw(4))*300*time.Millisecond + time.Duration(ci*17+j+1)*time.Microsecond // offsets: no two timers fire at the same instant
			cancelAt[j] = 1 + t.Draw(40)
		}
		go func(ci int) {
			defer func() { done <- struct{}{} }()
			for j, kind := range kinds {
				if delays[j] > 0 {
					time.Sleep(delays[j])
				}
				sc.Yield(alias, "issue query")
				p := wd.fs.Restart(alias)
				ctx, cancel := context.WithCancel(context.Background())
				switch kind {
				case "ioerror":
					// the interface listing (first operation after the slot was taken) fails
					p.Plan = func(op *simfs.Op) simfs.Action {
						if op.Index == 0 {
							return simfs.Action{Kind: simfs.Fail, Errno: syscall.EIO}
						}
						return simfs.Action{}
					}
				case "cancel":
					n := cancelAt[j]
					p.Plan = func(op *simfs.Op) simfs.Action {
						if op.Index == n {
							cancel()
						}
						return simfs.Action{}
					}
				}
				c := &call{client: ci, kind: kind, start: sc.StepCount(), maxHeldMin: K}
				if len(sem) < c.maxHeldMin {
					c.maxHeldMin = len(sem)
				}
				mu.Lock()
				pending[c] = true
				inCall[ci] = true
				mu.Unlock()
				a := args(q)
				a.KeepAlive = keepAlive
				c.res, c.err = engine.NewQueryRunner("/sim/"+alias+"/db", engine.WithMaxConcurrent(sem)).Run(ctx, a)
				cancel()
				c.end = sc.StepCount()
				mu.Lock()
				delete(pending, c)
				delete(executing, ci)
				delete(inCall, ci)
				calls = append(calls, c)
				mu.Unlock()
			}
		}(ci)
	}
	finished := 0
	idle := 0
	sc.Idle = func() bool {
		idle++
		if idle > 4000 {
			return false
		}
		sim.AdvanceClock(250*time.Millisecond + 11*time.Nanosecond)
		sc.SimTime += 250 * time.Millisecond
		return true
	}
	stall := sc.Run(func() bool {
		for {
			select {
			case <-done:
				finished++
				continue
			default:
			}
			break
		}
		return finished == C
	}, 2000000)
	r.SimTimeNs += int64(sc.SimTime)
	r.Event("K=%d clients=%d calls=%d strategy=%s clock=1/%d keepalive=%v steps=%d", K, C, len(calls), sc.Strategy(), sc.ClockChance, keepAlive, sc.Steps)
	sig := fmt.Sprintf("limit %d", K)
	if stall != "" {
		sc.Stop()
		return r.Report(&sim.Violation{Clause: "caller-never-returns", Signature: "burst of concurrent queries", Detail: stall + "\n" + blockedSummary()})
	}
	_ = sig
	n429 := 0
	// canonical order: calls that return within the same quiescent interval are appended in an
	// order the Go scheduler decides
	sort.Slice(calls, func(i, j int) bool {
		if calls[i].client != calls[j].client {
			return calls[i].client < calls[j].client
		}
		return calls[i].start < calls[j].start
	})
	for _, c := range calls {
		r.Event("  client %d %s steps [%d,%d] -> %s", c.client, c.kind, c.start, c.end, outcome(c.res, c.err))
		if c.res != nil && c.res.Status.Code == types.StatusTooManyRequests {
			n429++
			r.Probe("too_many_requests_returned")
			if c.maxHeldMin < K {
				if v := r.Report(&sim.Violation{Clause: "rejected-although-a-slot-was-free", Signature: "burst of concurrent queries",
					Detail: fmt.Sprintf("client %d was answered 'too many requests' although only %d of %d slots were held at some point of its waiting window (steps %d-%d)", c.client, c.maxHeldMin, K, c.start, c.end)}); v != nil {
					sc.Stop()
					return v
				}
			}
		}
	}
	if maxExec > K {
		sc.Stop()
		return r.Report(&sim.Violation{Clause: "limit-exceeded", Signature: "burst of concurrent queries", Detail: fmt.Sprintf("%d queries were executing at once with a limit of %d", maxExec, K)})
	}
	if maxExec == K && C > K {
		r.Nontriv = true
	}
	// no slot may stay taken once everything has returned
	if held := len(sem); held != 0 {
		kinds := map[string]int{}
		for _, c := range calls {
			kinds[c.kind]++
		}
		what := "after queries that failed once the slot was taken"
		if kinds["ioerror"] == 0 {
			what = "after cancelled or successful queries"
		}
		sc.Stop()
		return r.Report(&sim.Violation{Clause: "slot-leaked", Signature: what, Detail: fmt.Sprintf("%d of %d slots are still taken after all %d calls returned (kinds: %v)", held, K, len(calls), kinds)})
	}
	// K fresh queries all succeed
	sc.Stop()
	wd.fs.Yield = nil
	for i := 0; i < K; i++ {
		alias := "c0"
		wd.fs.Restart(alias)
		res, err := engine.NewQueryRunner("/sim/"+alias+"/db", engine.WithMaxConcurrent(sem)).Run(context.Background(), args(q))
		if err != nil || res == nil || res.Status.Code == types.StatusTooManyRequests {
			return r.Report(&sim.Violation{Clause: "fresh-query-rejected", Signature: "after quiescence", Detail: fmt.Sprintf("fresh query %d after quiescence: %s", i, outcome(res, err))})
		}
	}
	return nil
}

func outcome(res *results.Result, err error) string {
	if err != nil {
		return "error: " + err.Error()
	}
	if res == nil {
		return "nil result"
	}
	return fmt.Sprintf("status %q, %d rows", res.Status.Code, len(res.Rows))
}
