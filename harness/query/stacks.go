package query

import (
	"runtime"
	"strings"
)

// blockedSummary lists where goroutines of goProbe code are blocked (for liveness violations).
func blockedSummary() string {
	buf := make([]byte, 1<<20)
	n := runtime.Stack(buf, true)
	var out []string
	for _, g := range strings.Split(string(buf[:n]), "\n\n") {
		if !strings.Contains(g, "github.com/els0r/goProbe") {
			continue
		}
		lines := strings.Split(g, "\n")
		head := lines[0]
		where := ""
		for _, l := range lines[1:] {
			if strings.HasPrefix(l, "github.com/els0r/goProbe") {
				where = l
				if i := strings.LastIndex(where, "("); i > 0 {
					where = where[:i]
				}
				break
			}
		}
		out = append(out, "  "+head+" in "+where)
		if len(out) > 12 {
			break
		}
	}
	return "blocked goroutines:\n" + strings.Join(out, "\n")
}
