// Package query is the query-sim engine: the real query engine (work manager, workers,
// aggregation) over a database built through the real writer on the simulated disk, with the
// worker count, low-memory mode and (where the property needs it) the goroutine schedule and the
// interleaving with a concurrent writer decided by the simulator.
package query

import (
	"context"
	"fmt"
	"sort"
	"strings"

	"github.com/els0r/goProbe/v4/pkg/capture/capturetypes"
	"github.com/els0r/goProbe/v4/pkg/goDB"
	"github.com/els0r/goProbe/v4/pkg/goDB/encoder/encoders"
	"github.com/els0r/goProbe/v4/pkg/goDB/engine"
	"github.com/els0r/goProbe/v4/pkg/query"
	"github.com/els0r/goProbe/v4/pkg/results"
	"github.com/els0r/telemetry/logging"

	"verif/dbcheck"
	"verif/model"
	"verif/sim"
	"verif/simfs"
)

func init() {
	_, _ = logging.Init(logging.LevelFromString("panic"), logging.EncodingPlain, logging.WithOutput(discard{}), logging.WithErrorOutput(discard{}))
}

type discard struct{}

func (discard) Write(p []byte) (int, error) { return len(p), nil }

const (
	wdb  = "/sim/w/db"
	rdb  = "/sim/r/db"
	tree = "disk"
	rel  = "/db"
)

type world struct {
	fs *simfs.FS
	r  *sim.R
	*dbcheck.View
}

func newWorld(r *sim.R) *world {
	f := simfs.New()
	f.Mount("w", tree)
	f.Mount("r", tree)
	f.OnFault = func(kind string, op *simfs.Op) { r.Fault(kind) }
	restore := simfs.Install(f)
	if err := simfs.MkdirAll(wdb, 0o755); err != nil {
		panic(simfs.HarnessError{Msg: err.Error()})
	}
	restore()
	return &world{fs: f, r: r, View: &dbcheck.View{FS: f, R: r, Tree: tree, Rel: rel, Path: rdb}}
}

var encPool = []encoders.Type{encoders.EncoderTypeLZ4, encoders.EncoderTypeZSTD, encoders.EncoderTypeNull}

var startPool = []int64{1700000100, 1700006100, 1701388500, 1704066900}

// genStore draws a store: 1-3 interfaces, blocks over up to 4 days, IPv4/IPv6 mixes.
func genStore(t *sim.Tape, maxBlocks, maxFlows int, quirk bool) *model.Store {
	m := model.NewStore()
	ifaces := []string{"eth0", "eth1", "lan2"}
	nIf := 1 + t.Draw(3)
	for i := 0; i < nIf; i++ {
		ts := sim.Pick(t, startPool)
		nb := 1 + t.Draw(maxBlocks)
		for b := 0; b < nb; b++ {
			switch t.Draw(6) {
			case 0:
				ts += int64(1 + t.Draw(3600))
			case 1:
				ts += int64(86400 + t.Draw(86400))
			default:
				ts += 300
			}
			flows := model.GenFlows(t, maxFlows, true)
			if quirk && t.Draw(4) == 0 {
				f := model.GenFlow(t, true)
				f.V4 = false
				f.Sip, f.Dip = model.V6Quirk[t.Draw(2)], model.V6Quirk[t.Draw(2)]
				flows = append(flows, f)
			}
			m.Add(ifaces[i], model.FlowBlock(ts, flows, uint64(t.Draw(3))))
		}
	}
	return m
}

// build writes the model through the real DBWriter, one write-out per block.
func build(m *model.Store, t *sim.Tape) {
	for _, iface := range m.IfaceNames() {
		for _, d := range m.Days(iface) {
			for _, b := range m.Ifaces[iface][d].Blocks {
				w := goDB.NewDBWriter(wdb, iface, sim.Pick(t, encPool))
				if err := w.Write(model.ToAggFlowMap(b.Flows), capturetypes.CaptureStats{Dropped: b.Traffic.Drops}, b.TS); err != nil {
					panic(simfs.HarnessError{Msg: fmt.Sprintf("building database: %v", err)})
				}
			}
		}
	}
}

func args(q *model.Query) *query.Args {
	a := query.NewArgs(q.QueryType(), strings.Join(q.Ifaces, ","))
	a.Condition = q.CondString()
	a.First = fmt.Sprint(q.First)
	a.Last = fmt.Sprint(q.Last)
	a.NumResults = 1 << 40
	a.Format = "json"
	a.MaxMemPct = 99
	return a
}

func canonRows(q *model.Query, rows results.Rows) []string {
	out := dbcheck.RowsCanon(rows)
	if !q.Time {
		// rows carry no timestamp label then; RowsCanon prints 0 already
		_ = out
	}
	return out
}

// runQuery executes the query through the real engine.
func runQuery(ctx context.Context, q *model.Query, lowMem bool, opts ...engine.RunnerOption) (*results.Result, error) {
	a := args(q)
	a.LowMem = lowMem
	return engine.NewQueryRunner(rdb, opts...).Run(ctx, a)
}

// quirkRows re-renders expected rows the way types.RawIPToAddr renders IPv6 addresses whose
// bytes 4..15 are zero (as IPv4 addresses); only used to classify a mismatch as that known finding.
func quirkRows(rows []string) []string {
	out := make([]string, len(rows))
	for i, r := range rows {
		r = strings.ReplaceAll(r, "|2001:db8::|", "|32.1.13.184|")
		r = strings.ReplaceAll(r, "|::|", "|0.0.0.0|")
		r = strings.ReplaceAll(r, "|2001:db8::|", "|32.1.13.184|") // adjacent cells share a separator
		r = strings.ReplaceAll(r, "|::|", "|0.0.0.0|")
		out[i] = r
	}
	sort.Strings(out)
	return out
}

// compare checks a result against the model. It returns the failing clauses (several when the
// mismatch is exactly the combination of known deviations) and a detail text.
func compare(q *model.Query, m *model.Store, res *results.Result) (clauses []string, detail string) {
	want, wantTot := q.Eval(m, false)
	got := canonRows(q, res.Rows)
	if d := dbcheck.DiffRows(want, got); d != "" {
		pr, _ := q.Eval(m, true)
		switch {
		case dbcheck.DiffRows(pr, got) == "":
			return []string{"rows-of-other-ip-family-dropped"}, d
		case dbcheck.DiffRows(quirkRows(want), got) == "":
			return []string{"ipv6-address-rendered-as-ipv4"}, d
		case dbcheck.DiffRows(quirkRows(pr), got) == "":
			return []string{"rows-of-other-ip-family-dropped", "ipv6-address-rendered-as-ipv4"}, d
		}
		return []string{"rows-differ"}, d
	}
	gt := res.Summary.Totals
	if (model.Counters{BR: gt.BytesRcvd, BS: gt.BytesSent, PR: gt.PacketsRcvd, PS: gt.PacketsSent}) != wantTot {
		return []string{"totals-differ"}, fmt.Sprintf("Summary.Totals %+v, sum of the expected rows %+v", gt, wantTot)
	}
	if res.Summary.Hits.Total != len(want) {
		return []string{"hits-differ"}, fmt.Sprintf("Summary.Hits.Total %d, expected rows %d", res.Summary.Hits.Total, len(want))
	}
	return nil, ""
}

func sigFor(q *model.Query, clause string) string {
	switch clause {
	case "rows-of-other-ip-family-dropped":
		return "condition with address literals of one IP family"
	case "ipv6-address-rendered-as-ipv4":
		return "IPv6 address whose bytes 4..15 are zero"
	}
	if q.Cond != nil {
		return "condition: " + q.Cond.Shape()
	}
	return "condition: none"
}

func describe(q *model.Query) string {
	return fmt.Sprintf("query %q ifaces=%v condition=%q range=[%d,%d]", q.QueryType(), q.Ifaces, q.CondString(), q.First, q.Last)
}

// C08: query results equal a direct aggregation (fault-free; workers run under the Go scheduler
// with a drawn worker count and memory mode).
func c08(r *sim.R) *sim.Violation {
	wd := newWorld(r)
	defer simfs.Install(wd.fs)()
	m := genStore(r.T, 6, 12, true)
	build(m, r.T)
	nQ := 6 + r.T.Draw(10)
	r.Nontriv = true
	for i := 0; i < nQ; i++ {
		q := model.GenQuery(r.T, m)
		workers := []int{1, 2, 3, 4, 8, 16}[r.T.Draw(6)]
		lowMem := r.T.Draw(2) == 1
		restore := engine.VerifSetNumProcessingUnits(workers)
		res, err := runQuery(context.Background(), q, lowMem)
		restore()
		r.Event("%s workers=%d lowmem=%v", describe(q), workers, lowMem)
		if err != nil {
			if v := r.Report(&sim.Violation{Clause: "query-fails", Signature: "fault-free query returns an error", Detail: fmt.Sprintf("%s: %v", describe(q), err)}); v != nil {
				return v
			}
			continue
		}
		cls, det := compare(q, m, res)
		for _, cl := range cls {
			if v := r.Report(&sim.Violation{Clause: cl, Signature: sigFor(q, cl), Detail: fmt.Sprintf("%s\n%s", describe(q), det)}); v != nil {
				return v
			}
		}
	}
	return nil
}
