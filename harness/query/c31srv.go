package query

import (
	"bytes"
	"context"
	"fmt"
	"net/http"
	"net/http/httptest"
	"sort"
	"strings"
	"sync"
	"syscall"
	"time"

	jsoniter "github.com/json-iterator/go"
	"golang.org/x/time/rate"

	gpserver "github.com/els0r/goProbe/v4/pkg/api/goprobe/server"
	"github.com/els0r/goProbe/v4/pkg/api/server"
	"github.com/els0r/goProbe/v4/pkg/results"
	"github.com/els0r/goProbe/v4/pkg/types"

	"verif/model"
	"verif/sim"
	"verif/simfs"
)

// C31 (server variant): the limit is CONFIGURED, the way an operator does it - the real goProbe API
// server is built with WithQueryRateLimit(rate, burst, K) (rate 0: only a concurrency limit; or a
// rate high enough never to refuse) and the queries are HTTP requests served by its router (no
// socket: the handler is called directly). The semaphore is the server's own, so the oracle cannot
// look at it: a query counts as executing from its first file-system operation to the return of
// its request. Every client queries its own interface, which is how operations of worker
// goroutines are attributed to a client.
func c31srv(r *sim.R) *sim.Violation {
	t := r.T
	wd := newWorld(r)
	defer simfs.Install(wd.fs)()
	K := 1 + t.Draw(3)
	C := K + 1 + t.Draw(K+2)
	m := model.NewStore()
	for ci := 0; ci < C; ci++ {
		ts := sim.Pick(t, startPool)
		for b, nb := 0, 1+t.Draw(2); b < nb; b++ {
			m.Add(fmt.Sprintf("if%d", ci), model.FlowBlock(ts, model.GenFlows(t, 3, true), 0))
			ts += []int64{300, 86400}[t.Draw(2)]
		}
	}
	build(m, t)
	wd.fs.Mount("srv", tree)
	var lim rate.Limit
	burst := 0
	if t.Draw(2) == 1 {
		lim, burst = 1e9, 1<<30
	}
	keepAlive := []time.Duration{0, 200*time.Millisecond + 7*time.Nanosecond, 3*time.Second + 7*time.Nanosecond}[t.Draw(3)]
	srv := gpserver.New("", "/sim/srv/db", nil, nil, server.WithQueryRateLimit(lim, burst, K), server.WithNoRecursionDetection())
	handler := srv.API().Adapter()

	type call struct {
		client     int
		kind       string
		start, end int
		code       int
		res        *results.Result
		body       string
	}
	sc := sim.NewSched(r)
	sc.ClockChance = []int{0, 8, 30}[t.Draw(3)]
	sc.ClockMax = 1500 * time.Millisecond
	var mu sync.Mutex
	executing := map[int]bool{}
	inCall := map[int]bool{}
	clientOf := map[int64]int{} // goroutine of a client's request -> client
	nOps := map[int]int{}       // operations of the current call of a client
	failFirst := map[int]bool{}
	cancelAt := map[int]int{}
	cancels := map[int]context.CancelFunc{}
	actorNames := map[int64]string{}
	maxExec := 0
	attribute := func(op *simfs.Op) (int, bool) {
		if strings.HasPrefix(op.Path, rel+"/if") {
			var id int
			fmt.Sscanf(op.Path[len(rel)+3:], "%d", &id)
			return id, true
		}
		id, ok := clientOf[sim.GoID()]
		return id, ok
	}
	wd.fs.Proc("srv").Plan = func(op *simfs.Op) simfs.Action {
		mu.Lock()
		defer mu.Unlock()
		id, ok := attribute(op)
		if !ok || !inCall[id] {
			return simfs.Action{}
		}
		nOps[id]++
		if failFirst[id] && nOps[id] == 1 {
			return simfs.Action{Kind: simfs.Fail, Errno: syscall.EIO}
		}
		if n := cancelAt[id]; n > 0 && nOps[id] == n {
			cancels[id]()
		}
		return simfs.Action{}
	}
	wd.fs.Yield = func(op *simfs.Op) {
		if op.Proc.Name != "srv" {
			return
		}
		mu.Lock()
		id, ok := attribute(op)
		if !ok {
			mu.Unlock()
			panic(simfs.HarnessError{Msg: "operation of no client: " + op.String()})
		}
		if inCall[id] {
			executing[id] = true
		}
		gid := sim.GoID()
		an, known := actorNames[gid]
		if !known {
			an = fmt.Sprintf("c%d:%s %s", id, op.Kind, op.Path)
			actorNames[gid] = an
		}
		mu.Unlock()
		sc.Yield(an, string(op.Kind)+" "+op.Path)
	}
	defer func() { wd.fs.Yield = nil }()
	var calls []*call
	sc.OnQuiescent = func() {
		mu.Lock()
		defer mu.Unlock()
		if n := len(executing); n > maxExec {
			maxExec = n
		}
	}
	done := make(chan struct{}, C)
	for ci := 0; ci < C; ci++ {
		alias := fmt.Sprintf("c%d", ci)
		nCalls := 1 + t.Draw(2)
		kinds := make([]string, nCalls)
		delays := make([]time.Duration, nCalls)
		cancelN := make([]int, nCalls)
		for j := range kinds {
			kinds[j] = []string{"ok", "ok", "ioerror", "cancel"}[t.Draw(4)]
			delays[j] = time.Duration(t.Draw(4))*300*time.Millisecond + time.Duration(ci*17+j+1)*time.Microsecond
			cancelN[j] = 1 + t.Draw(30)
		}
		q := &model.Query{Attrs: []string{"sip", "dport"}, Ifaces: []string{fmt.Sprintf("if%d", ci)}, First: 1, Last: 4102444800}
		go func(ci int) {
			defer func() { done <- struct{}{} }()
			gid := sim.GoID()
			for j, kind := range kinds {
				if delays[j] > 0 {
					time.Sleep(delays[j])
				}
				sc.Yield(alias, "issue request")
				ctx, cancel := context.WithCancel(context.Background())
				a := args(q)
				a.KeepAlive = keepAlive
				body, err := jsoniter.Marshal(a)
				if err != nil {
					panic(simfs.HarnessError{Msg: err.Error()})
				}
				req := httptest.NewRequest(http.MethodPost, "/_query", bytes.NewReader(body)).WithContext(ctx)
				req.Header.Set("Content-Type", "application/json")
				rec := httptest.NewRecorder()
				c := &call{client: ci, kind: kind, start: sc.StepCount()}
				mu.Lock()
				clientOf[gid] = ci
				inCall[ci] = true
				nOps[ci] = 0
				failFirst[ci] = kind == "ioerror"
				cancelAt[ci] = 0
				if kind == "cancel" {
					cancelAt[ci] = cancelN[j]
				}
				cancels[ci] = cancel
				mu.Unlock()
				handler.ServeHTTP(rec, req)
				cancel()
				c.end = sc.StepCount()
				c.code = rec.Code
				c.body = rec.Body.String()
				if rec.Code == http.StatusOK {
					c.res = new(results.Result)
					if err := jsoniter.Unmarshal(rec.Body.Bytes(), c.res); err != nil {
						c.res = nil
					}
				}
				mu.Lock()
				delete(executing, ci)
				delete(inCall, ci)
				calls = append(calls, c)
				mu.Unlock()
			}
		}(ci)
	}
	finished := 0
	idle := 0
	sc.Idle = func() bool {
		idle++
		if idle > 4000 {
			return false
		}
		sim.AdvanceClock(250*time.Millisecond + 11*time.Nanosecond)
		sc.SimTime += 250 * time.Millisecond
		return true
	}
	stall := sc.Run(func() bool {
		for {
			select {
			case <-done:
				finished++
				continue
			default:
			}
			break
		}
		return finished == C
	}, 2000000)
	r.SimTimeNs += int64(sc.SimTime)
	limiter := "no request rate"
	if lim > 0 {
		limiter = "with a request rate"
	}
	r.Shape = "server " + limiter
	r.Event("server variant: K=%d (%s) clients=%d calls=%d strategy=%s clock=1/%d keepalive=%v steps=%d", K, limiter, C, len(calls), sc.Strategy(), sc.ClockChance, keepAlive, sc.Steps)
	if stall != "" {
		sc.Stop()
		return r.Report(&sim.Violation{Clause: "caller-never-returns", Signature: "burst of HTTP queries, limit configured " + limiter, Detail: stall + "\n" + blockedSummary()})
	}
	sort.Slice(calls, func(i, j int) bool {
		if calls[i].client != calls[j].client {
			return calls[i].client < calls[j].client
		}
		return calls[i].start < calls[j].start
	})
	sc.Stop()
	for _, c := range calls {
		out := fmt.Sprintf("HTTP %d", c.code)
		if c.res != nil {
			out += fmt.Sprintf(", status %q, %d rows", c.res.Status.Code, len(c.res.Rows))
		}
		r.Event("  client %d %s steps [%d,%d] -> %s", c.client, c.kind, c.start, c.end, out)
		if c.res != nil && c.res.Status.Code == types.StatusTooManyRequests {
			r.Probe("too_many_requests_returned")
		}
		if c.code == http.StatusTooManyRequests {
			// the request-rate middleware is configured never to refuse
			return r.Report(&sim.Violation{Clause: "refused-by-the-request-rate", Signature: "limit configured " + limiter, Detail: fmt.Sprintf("client %d was answered HTTP 429 by the request-rate limiter (rate %v, burst %d)", c.client, lim, burst)})
		}
		if c.kind == "ok" && (c.code != http.StatusOK || c.res == nil) {
			return r.Report(&sim.Violation{Clause: "query-fails", Signature: "limit configured " + limiter, Detail: fmt.Sprintf("client %d: HTTP %d: %.300s", c.client, c.code, c.body)})
		}
		if c.kind == "ok" && c.res.Status.Code != types.StatusTooManyRequests {
			q := &model.Query{Attrs: []string{"sip", "dport"}, Ifaces: []string{fmt.Sprintf("if%d", c.client)}, First: 1, Last: 4102444800}
			if cls, det := compare(q, m, c.res); len(cls) > 0 {
				return r.Report(&sim.Violation{Clause: "result-wrong-under-load", Signature: "limit configured " + limiter, Detail: fmt.Sprintf("client %d (%s): %s", c.client, cls[0], det)})
			}
		}
	}
	if maxExec > K {
		return r.Report(&sim.Violation{Clause: "limit-exceeded", Signature: "limit configured " + limiter, Detail: fmt.Sprintf("%d queries were executing at once on a server configured with a limit of %d concurrent queries (%s)", maxExec, K, limiter)})
	}
	if maxExec == K {
		r.Nontriv = true
	}
	// no slot may stay taken: K sequential fresh requests all succeed, and K+1 (the slots are free
	// again after each)
	wd.fs.Yield = nil
	wd.fs.Proc("srv").Plan = nil
	for i := 0; i <= K; i++ {
		a := args(&model.Query{Attrs: []string{"sip", "dport"}, Ifaces: []string{"if0"}, First: 1, Last: 4102444800})
		body, _ := jsoniter.Marshal(a)
		req := httptest.NewRequest(http.MethodPost, "/_query", bytes.NewReader(body))
		req.Header.Set("Content-Type", "application/json")
		rec := httptest.NewRecorder()
		handler.ServeHTTP(rec, req)
		res := new(results.Result)
		if rec.Code != http.StatusOK || jsoniter.Unmarshal(rec.Body.Bytes(), res) != nil || res.Status.Code == types.StatusTooManyRequests {
			kinds := map[string]int{}
			for _, c := range calls {
				kinds[c.kind]++
			}
			what := "after queries that failed once the slot was taken"
			if kinds["ioerror"] == 0 {
				what = "after cancelled or successful queries"
			}
			return r.Report(&sim.Violation{Clause: "slot-leaked", Signature: what, Detail: fmt.Sprintf("fresh request %d after all %d calls returned (kinds %v): HTTP %d %.200s", i, len(calls), kinds, rec.Code, rec.Body.String())})
		}
	}
	return nil
}
