package query

import (
	"context"
	"fmt"
	"strings"
	"sync"
	"time"

	"github.com/els0r/goProbe/v4/pkg/capture/capturetypes"
	"github.com/els0r/goProbe/v4/pkg/goDB"
	"github.com/els0r/goProbe/v4/pkg/goDB/encoder/encoders"
	"github.com/els0r/goProbe/v4/pkg/goDB/engine"
	"github.com/els0r/goProbe/v4/pkg/results"

	"verif/dbcheck"
	"verif/model"
	"verif/sim"
	"verif/simfs"
)

// scheduled runs fn (a query) on its own goroutine while the seeded scheduler decides, at every
// file-system operation of the reader process, which parked goroutine proceeds. It returns an
// error text when the query does not finish within the liveness budget.
func (wd *world) scheduled(r *sim.R, fn func(), maxSteps int) (stall string, sc *sim.Sched) {
	sc = sim.NewSched(r)
	names := map[int64]string{}
	var namesMu sync.Mutex
	wd.fs.Yield = func(op *simfs.Op) {
		if op.Proc.Name != "r" {
			return
		}
		// actor = goroutine (workers are distinct actors); named by order of first appearance
		// of its first operation's path, which is schedule-independent for workers (distinct days)
		id := sim.GoID()
		namesMu.Lock() // several workers reach their first operation concurrently
		n, ok := names[id]
		if !ok {
			// named after the goroutine's first operation: independent of goroutine identity and of
			// the order in which symmetric workers happen to start
			n = "r:" + string(op.Kind) + " " + op.Path
			names[id] = n
		}
		namesMu.Unlock()
		sc.Yield(n, string(op.Kind)+" "+op.Path)
	}
	done := make(chan struct{})
	go func() {
		defer close(done)
		fn()
	}()
	idle := 0
	sc.Idle = func() bool {
		// nothing is parked: the query waits for a timer (or is stuck). Advance the fake clock; a
		// query that is still not done after a simulated hour of idling does not terminate.
		idle++
		if idle > 3600 {
			return false
		}
		sim.AdvanceClock(time.Second)
		return true
	}
	isDone := func() bool {
		select {
		case <-done:
			return true
		default:
			return false
		}
	}
	stall = sc.Run(isDone, maxSteps)
	sc.Stop()
	wd.fs.Yield = nil
	r.SimTimeNs += int64(idle) * int64(time.Second)
	return stall, sc
}

// C11: the same query under worker counts 1..16, low-memory on/off and seeded schedules returns
// the same rows and totals; queries over many day directories terminate.
func c11(r *sim.R) *sim.Violation {
	wd := newWorld(r)
	defer simfs.Install(wd.fs)()
	if r.T.Draw(8) == 0 {
		return c11Termination(r, wd)
	}
	// enough days that one worker processes several bulks of 32 directories in some runs
	m := model.NewStore()
	nDays := 1 + r.T.Draw(80)
	if r.T.Draw(3) == 0 {
		nDays = 1 + r.T.Draw(6)
	}
	base := int64(1690000000)
	for d := 0; d < nDays; d++ {
		nb := 1 + r.T.Draw(2)
		for b := 0; b < nb; b++ {
			m.Add("eth0", model.FlowBlock(base+int64(d)*86400+int64(b)*300, model.GenFlows(r.T, 4, true), 0))
		}
	}
	// one interface only: the engine iterates a Go map of per-interface work managers, whose order
	// no seed controls; with several interfaces the schedule (not the result) would not replay
	build(m, r.T)
	// one run in three: the day after the last one is just being started by the writer - its
	// directory exists, metadata (and possibly some column files) do not yet. Every configuration
	// must cope with it in the same way (it holds no committed block).
	bare := 0
	if r.T.Draw(3) == 0 {
		bare = 1 + r.T.Draw(2)
		for i := 0; i < bare; i++ {
			day := model.DayOf(base + int64(nDays+i)*86400)
			dir := "/sim/w" + dbcheck.DayPath(rel, "eth0", day, fmt.Sprint(day))
			if err := simfs.MkdirAll(dir, 0o755); err != nil {
				panic(simfs.HarnessError{Msg: err.Error()})
			}
			if r.T.Bool() {
				if err := simfs.WriteFile(dir+"/sip.gpf", []byte{1, 2, 3}, 0o644); err != nil {
					panic(simfs.HarnessError{Msg: err.Error()})
				}
			}
		}
		r.Probe("day_directory_without_metadata")
	}
	// one run in five (databases of more than 40 days: several work bulks): the metadata of an inner
	// day is cut off, so that the worker that gets this day fails. Whatever the outcome is with one
	// worker (at present the whole query fails: a C06 finding), it must be the same with any number
	// of workers and in either memory mode - never an error here and a partial result there
	damaged := false
	if nDays > 40 && bare == 0 && r.T.Draw(5) == 0 {
		day := model.DayOf(base + int64(1+r.T.Draw(nDays-2))*86400)
		if names := dbcheck.DayDirNames(wd.fs, tree, rel, "eth0", day); len(names) == 1 {
			mp := dbcheck.DayPath(rel, "eth0", day, names[0]) + "/.blockmeta"
			if b, ok := wd.fs.ReadRaw(tree, mp); ok && len(b) > 20 {
				wd.fs.WriteRaw(tree, mp, b[:20])
				damaged = true
				r.Fault("stored-byte-damage:truncated-metadata-of-an-inner-day")
			}
		}
	}
	q := model.GenQuery(r.T, m)
	q.First, q.Last = 1, 4102444800
	q.Ifaces = []string{"eth0"}
	if q.Cond != nil {
		// keep the known family-pruning deviation out of this property: it is C08's finding
		if a, b := q.Cond.Families(); a != b {
			q.Cond = nil
		}
	}
	r.Event("%s over %d days (+%d day directories without metadata)", describe(q), nDays, bare)
	want, wantTot := q.Eval(m, false)
	var ref []string
	var refOutcome string
	nCfg := 3 + r.T.Draw(3)
	for c := 0; c < nCfg; c++ {
		workers := []int{1, 2, 3, 4, 8, 16}[r.T.Draw(6)]
		lowMem := r.T.Draw(2) == 1
		if c == 0 {
			workers, lowMem = 1, false
		}
		var res *results.Result
		var err error
		restore := engine.VerifSetNumProcessingUnits(workers)
		wd.fs.Restart("r")
		stall, sc := wd.scheduled(r, func() { res, err = runQuery(context.Background(), q, lowMem) }, 2000000)
		restore()
		r.Event("config %d: workers=%d lowmem=%v strategy=%s steps=%d max parked=%d", c, workers, lowMem, sc.Strategy(), sc.Steps, sc.MaxParked)
		if sc.MaxParked >= 2 {
			r.Nontriv = true
			r.Probe("workers_interleaved")
		}
		sig := fmt.Sprintf("workers>1=%v lowmem=%v", workers > 1, lowMem)
		if stall != "" {
			return r.Report(&sim.Violation{Clause: "does-not-terminate", Signature: sig, Detail: fmt.Sprintf("%s (workers=%d lowmem=%v, %s): %s", describe(q), workers, lowMem, sc.Strategy(), stall)})
		}
		if damaged {
			outcome := "error"
			if err == nil {
				outcome = "rows:\n" + strings.Join(canonRows(q, res.Rows), "\n")
			}
			if c == 0 {
				refOutcome = outcome
			} else if outcome != refOutcome {
				short := func(o string) string {
					if len(o) > 300 {
						return o[:300] + "..."
					}
					return o
				}
				return r.Report(&sim.Violation{Clause: "outcome-depends-on-configuration", Signature: sig + ", a worker fails on an undecodable day",
					Detail: fmt.Sprintf("%s over %d days, metadata of an inner day cut off: one worker, default mode: %s\nworkers=%d lowmem=%v schedule %s: %s", describe(q), nDays, short(refOutcome), workers, lowMem, sc.Strategy(), short(outcome))})
			}
			continue
		}
		if err != nil {
			return r.Report(&sim.Violation{Clause: "query-fails", Signature: sig, Detail: fmt.Sprintf("%s (workers=%d lowmem=%v): %v", describe(q), workers, lowMem, err)})
		}
		got := canonRows(q, res.Rows)
		gt := res.Summary.Totals
		gtc := model.Counters{BR: gt.BytesRcvd, BS: gt.BytesSent, PR: gt.PacketsRcvd, PS: gt.PacketsSent}
		if c == 0 {
			ref = got
		} else if d := dbcheck.DiffRows(ref, got); d != "" {
			return r.Report(&sim.Violation{Clause: "result-depends-on-configuration", Signature: sig,
				Detail: fmt.Sprintf("%s over %d days: workers=%d lowmem=%v schedule %s differs from the sequential run\n%s", describe(q), nDays, workers, lowMem, sc.Strategy(), d)})
		}
		cls, det := compare(q, m, res)
		for _, cl := range cls {
			if cl == "ipv6-address-rendered-as-ipv4" || cl == "rows-of-other-ip-family-dropped" {
				continue // C08's findings
			}
			return r.Report(&sim.Violation{Clause: cl, Signature: sig, Detail: fmt.Sprintf("%s over %d days (workers=%d lowmem=%v schedule %s)\n%s", describe(q), nDays, workers, lowMem, sc.Strategy(), det)})
		}
		_ = want
		if len(cls) == 0 && gtc != wantTot {
			return r.Report(&sim.Violation{Clause: "totals-differ", Signature: sig, Detail: fmt.Sprintf("totals %+v vs %+v", gtc, wantTot)})
		}
	}
	return nil
}

// c11Termination builds databases with day-directory counts around the capacity of the work
// queue (workers * 64 bulks of 32 directories) and demands that the query returns.
func c11Termination(r *sim.R, wd *world) *sim.Violation {
	workers := 1
	capDays := workers * 64 * 32
	nDays := capDays + []int{-1, 0, 1, 31, 32, 33, 64}[r.T.Draw(7)]
	lowMem := false
	if r.T.Draw(2) == 1 {
		nDays = 32 * (8 + r.T.Draw(8))
		workers = 1 + r.T.Draw(2)
		lowMem = r.T.Draw(3) != 0
	}
	failing := workers != 1 || nDays < capDays-1
	base := int64(86400 * 10000)
	w := goDB.NewDBWriter(wdb, "eth0", encoders.EncoderTypeNull)
	empty := model.ToAggFlowMap(nil)
	for d := 0; d < nDays; d++ {
		if err := w.Write(empty, capturetypes.CaptureStats{}, base+int64(d)*86400+300); err != nil {
			panic(simfs.HarnessError{Msg: err.Error()})
		}
	}
	// every other run: a worker fails early (metadata of the second day cut off) while many work
	// bulks remain, in either memory mode and with one or two workers - the query may fail, it must
	// return (the remaining workers must never block on the aggregation side for good)
	if failing {
		day := model.DayOf(base + 86400)
		if names := dbcheck.DayDirNames(wd.fs, tree, rel, "eth0", day); len(names) == 1 {
			mp := dbcheck.DayPath(rel, "eth0", day, names[0]) + "/.blockmeta"
			if b, ok := wd.fs.ReadRaw(tree, mp); ok && len(b) > 20 {
				wd.fs.WriteRaw(tree, mp, b[:20])
				r.Fault("stored-byte-damage:truncated-metadata-early-day-many-bulks")
			}
		}
	}
	q := &model.Query{Attrs: []string{"sip"}, Ifaces: []string{"eth0"}, First: 1, Last: 4102444800}
	r.Event("termination: %d day directories, %d worker(s), lowmem=%v, failing worker=%v", nDays, workers, lowMem, failing)
	r.Nontriv = true
	r.Probe("termination_run")
	var err error
	restore := engine.VerifSetNumProcessingUnits(workers)
	defer restore()
	ctx, cancel := context.WithCancel(context.Background())
	defer cancel()
	stall, sc := wd.scheduled(r, func() { _, err = runQuery(ctx, q, lowMem) }, 5000000)
	if stall != "" {
		cancel()
		over := "at most the queue capacity"
		if nDays > capDays {
			over = "more day directories than the work queue holds"
		}
		return r.Report(&sim.Violation{Clause: "does-not-terminate", Signature: over,
			Detail: fmt.Sprintf("query over %d day directories with %d worker(s) (queue capacity %d directories): %s after %d scheduling steps\n%s", nDays, workers, capDays, stall, sc.Steps, strings.TrimSpace(blockedSummary()))})
	}
	if err != nil && !failing {
		return r.Report(&sim.Violation{Clause: "query-fails", Signature: "many day directories", Detail: err.Error()})
	}
	return nil
}
