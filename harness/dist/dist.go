// Package dist is the dist-sim engine: the real distributed query runner, the real API client
// querier (fan-out / fan-in pipeline) and the real HTTP client stack (retries, back-off, request
// time-outs) over a simulated transport and clock; reply order, delays, losses, errors and
// partitions are decided by the simulator.
package dist

import (
	"context"
	"fmt"
	"net/http"
	"net/netip"
	"sort"
	"strings"
	"sync"
	"time"

	"github.com/danielgtaylor/huma/v2/sse"
	gqdist "github.com/els0r/goProbe/v4/cmd/global-query/pkg/distributed"
	"github.com/els0r/goProbe/v4/pkg/api"
	"github.com/els0r/goProbe/v4/pkg/api/goprobe/client"
	"github.com/els0r/goProbe/v4/pkg/distributed/hosts"
	"github.com/els0r/goProbe/v4/pkg/query"
	"github.com/els0r/goProbe/v4/pkg/results"
	"github.com/els0r/goProbe/v4/pkg/types"
	"github.com/els0r/goProbe/v4/pkg/types/workload"
	"github.com/els0r/goProbe/v4/plugins/querier/apiclient"
	"github.com/els0r/goProbe/v4/plugins/resolver/stringresolver"
	"github.com/els0r/telemetry/logging"
	jsoniter "github.com/json-iterator/go"

	"verif/sim"
	"verif/simnet"
)

func init() {
	_, _ = logging.Init(logging.LevelFromString("panic"), logging.EncodingPlain, logging.WithOutput(discard{}), logging.WithErrorOutput(discard{}))
}

type discard struct{}

func (discard) Write(p []byte) (int, error) { return len(p), nil }

// hostResult is what a simulated host answers.
type hostResult struct {
	name    string
	res     *results.Result
	outcome string // "ok" or "error" (after all retries)
	script  []simnet.Attempt
}

var ipPool = []string{"10.0.0.1", "10.0.0.2", "192.168.1.9", "2001:db8::1", "2001:db8::2"}

// genHostResult draws the result of one host. shared rows (no host label) collide across hosts.
func genHostResult(t *sim.Tape, name string, base time.Time) *results.Result {
	res := results.New()
	res.Start()
	res.Hostname = name
	res.HostsStatuses[name] = results.Status{Code: types.StatusOK}
	n := t.Draw(6)
	big := t.Draw(10) == 0
	if big {
		n = 110 + t.Draw(120) // more rows than the cap applied to partial results of a streaming query
	}
	seen := map[string]bool{}
	for i := 0; i < n; i++ {
		var row results.Row
		if t.Draw(3) != 0 {
			row.Labels.Hostname = name
			row.Labels.HostID = "id-" + name
		}
		row.Labels.Iface = []string{"eth0", "eth1"}[t.Draw(2)]
		row.Attributes.SrcIP = netip.MustParseAddr(ipPool[t.Draw(len(ipPool))])
		row.Attributes.DstIP = netip.MustParseAddr(ipPool[t.Draw(len(ipPool))])
		row.Attributes.IPProto = []uint8{6, 17}[t.Draw(2)]
		row.Attributes.DstPort = []uint16{80, 443, 53}[t.Draw(3)]
		if big {
			row.Attributes.DstPort = uint16(1000 + i)
		}
		k := fmt.Sprintf("%v|%v", row.Labels, row.Attributes)
		if seen[k] {
			continue
		}
		seen[k] = true
		row.Counters = types.Counters{BytesRcvd: uint64(t.Draw(1000)), BytesSent: uint64(t.Draw(1000)), PacketsRcvd: uint64(1 + t.Draw(10)), PacketsSent: uint64(t.Draw(10))}
		res.Rows = append(res.Rows, row)
		res.Summary.Totals.Add(row.Counters)
	}
	res.Summary.Hits.Total = len(res.Rows)
	res.Summary.Hits.Displayed = len(res.Rows)
	switch t.Draw(6) {
	case 0:
		res.Summary.Hits.Total = 0 // a host that does not fill in the hit count
	case 1:
		res.Summary.Hits.Total += 1 + t.Draw(20) // a host that applied a row limit: more hits than rows
	}
	res.Summary.DataAvailable = true
	if len(res.Rows) == 0 && t.Bool() {
		res.Summary.DataAvailable = false // the host has no data for the interface / range at all
	}
	ifs := map[string]bool{}
	for _, row := range res.Rows {
		ifs[row.Labels.Iface] = true
	}
	for i := range ifs {
		res.Summary.Interfaces = append(res.Summary.Interfaces, i)
	}
	sort.Strings(res.Summary.Interfaces)
	res.Summary.First = base.Add(-time.Duration(t.Draw(10)) * time.Hour)
	res.Summary.Last = base.Add(time.Duration(t.Draw(10)) * time.Minute)
	res.Summary.Stats = &workload.Stats{BytesLoaded: uint64(t.Draw(5000)), BytesDecompressed: uint64(t.Draw(9000)), BlocksProcessed: uint64(t.Draw(50)), BlocksCorrupted: uint64(t.Draw(2)),
		DirectoriesProcessed: uint64(1 + t.Draw(4)), Workloads: uint64(1 + t.Draw(3))}
	res.Query = results.Query{Attributes: []string{"sip", "dip", "dport", "proto"}}
	if len(res.Rows) == 0 {
		res.Status = results.Status{Code: types.StatusEmpty, Message: results.ErrorNoResults.Error()}
		res.HostsStatuses[name] = res.Status
	}
	if t.Chance(1, 6) {
		// a reply without per-host statuses (the field is optional on the wire: an older or a
		// nested querier may omit it); the merged statuses then simply have no entry for this host
		res.HostsStatuses = nil
	}
	return res
}

// genScript draws the fault plan of a host; it returns the final outcome after all retries.
func genScript(t *sim.Tape) ([]simnet.Attempt, string) {
	delay := func() time.Duration { return time.Duration(t.Draw(5)) * 300 * time.Millisecond }
	ok := simnet.Attempt{Kind: "ok", Delay: delay()}
	switch t.Draw(11) {
	case 9: // answers 200 with a body that is not a result (cut off mid-object), every time
		return []simnet.Attempt{{Kind: "garbage", Delay: delay()}}, "error"
	case 10: // the connection breaks while the body is being read, every time
		return []simnet.Attempt{{Kind: "cutbody", Delay: delay()}}, "error"
	case 0, 1, 2, 3:
		return []simnet.Attempt{ok}, "ok"
	case 4: // lost connection, then fine (client retries after 1 s)
		return []simnet.Attempt{{Kind: "connerr"}, ok}, "ok"
	case 5: // transient server errors, healed before the last retry
		return []simnet.Attempt{{Kind: "status", Code: []int{500, 502, 429}[t.Draw(3)]}, {Kind: "status", Code: 502, Delay: delay()}, ok}, "ok"
	case 6: // permanently failing
		return []simnet.Attempt{{Kind: "status", Code: 500}}, "error"
	case 7: // partition: hangs until the request time-out
		return []simnet.Attempt{{Kind: "hang"}}, "error"
	default: // unreachable
		return []simnet.Attempt{{Kind: "connerr", Delay: delay()}}, "error"
	}
}

type world struct {
	r     *sim.R
	sc    *sim.Sched
	tr    *simnet.Transport
	mu    sync.Mutex
	names map[int64]string
}

func (w *world) yield(what string) {
	id := sim.GoID()
	w.mu.Lock()
	n, ok := w.names[id]
	if !ok {
		// the pipeline workers are symmetric: name a goroutine after its first interaction
		n = "g:" + strings.SplitN(what, " attempt", 2)[0]
		w.names[id] = n
	}
	w.mu.Unlock()
	w.sc.Yield(n, what)
}

// canon renders everything of a merged result that must not depend on the reply order.
func canon(res *results.Result) []string {
	if res == nil {
		return []string{"<nil result>"}
	}
	var out []string
	for _, row := range res.Rows {
		out = append(out, fmt.Sprintf("row %s|%s|%s|%s|%s|%d|%d %+v", row.Labels.Hostname, row.Labels.HostID, row.Labels.Iface, row.Attributes.SrcIP, row.Attributes.DstIP, row.Attributes.DstPort, row.Attributes.IPProto, row.Counters))
	}
	sort.Strings(out)
	out = append(out, fmt.Sprintf("totals %+v", res.Summary.Totals))
	out = append(out, fmt.Sprintf("hits %d", res.Summary.Hits.Total))
	if res.Summary.Stats != nil {
		s := res.Summary.Stats
		out = append(out, fmt.Sprintf("stats loaded=%d decompressed=%d blocks=%d corrupted=%d dirs=%d workloads=%d", s.BytesLoaded, s.BytesDecompressed, s.BlocksProcessed, s.BlocksCorrupted, s.DirectoriesProcessed, s.Workloads))
	}
	ifs := append([]string(nil), res.Summary.Interfaces...)
	sort.Strings(ifs)
	out = append(out, fmt.Sprintf("interfaces %v", ifs))
	var hs []string
	for h, st := range res.HostsStatuses {
		msg := ""
		if st.Code == types.StatusError {
			msg = " (with message)"
			if st.Message == "" {
				msg = " (without message)"
			}
		}
		hs = append(hs, fmt.Sprintf("%s=%s%s", h, st.Code, msg))
	}
	sort.Strings(hs)
	out = append(out, "hosts "+strings.Join(hs, " "))
	out = append(out, fmt.Sprintf("first %d last %d", res.Summary.First.Unix(), res.Summary.Last.Unix()))
	out = append(out, fmt.Sprintf("status %s", res.Status.Code))
	// lines starting with "~" are compared between the runs of one evaluation only (they must not
	// depend on the reply order), not with the model (which makes no statement about them)
	out = append(out, fmt.Sprintf("~data_available %v", res.Summary.DataAvailable))
	out = append(out, fmt.Sprintf("~status_message %q", res.Status.Message))
	return out
}

// expected computes M_dist from the hosts whose final outcome is ok.
func expected(hs []*hostResult) []string {
	m := results.New()
	m.Start()
	rows := map[string]*results.Row{}
	var order []string
	sumRows := 0
	ifs := map[string]bool{}
	for _, h := range hs {
		if h.outcome != "ok" {
			m.HostsStatuses[h.name] = results.Status{Code: types.StatusError, Message: "x"}
			continue
		}
		for k, v := range h.res.HostsStatuses {
			m.HostsStatuses[k] = v
		}
		for _, row := range h.res.Rows {
			k := fmt.Sprintf("%v|%v", row.Labels, row.Attributes)
			if e, ok := rows[k]; ok {
				e.Counters.Add(row.Counters)
			} else {
				c := row
				rows[k] = &c
				order = append(order, k)
			}
		}
		sumRows += h.res.Summary.Hits.Total
		m.Summary.Totals.Add(h.res.Summary.Totals)
		s, o := m.Summary.Stats, h.res.Summary.Stats
		s.BytesLoaded += o.BytesLoaded
		s.BytesDecompressed += o.BytesDecompressed
		s.BlocksProcessed += o.BlocksProcessed
		s.BlocksCorrupted += o.BlocksCorrupted
		s.DirectoriesProcessed += o.DirectoriesProcessed
		s.Workloads += o.Workloads
		for _, i := range h.res.Summary.Interfaces {
			ifs[i] = true
		}
		if m.Summary.First.IsZero() || h.res.Summary.First.Before(m.Summary.First) {
			m.Summary.First = h.res.Summary.First
		}
		if h.res.Summary.Last.After(m.Summary.Last) {
			m.Summary.Last = h.res.Summary.Last
		}
	}
	for _, k := range order {
		m.Rows = append(m.Rows, *rows[k])
	}
	m.Summary.Hits.Total = sumRows - (func() int {
		n := 0
		for _, h := range hs {
			if h.outcome == "ok" {
				n += len(h.res.Rows)
			}
		}
		return n - len(order)
	})()
	for i := range ifs {
		m.Summary.Interfaces = append(m.Summary.Interfaces, i)
	}
	m.Status = results.Status{Code: types.StatusOK}
	if len(m.Rows) == 0 {
		m.Status = results.Status{Code: types.StatusMissingData}
	}
	return canon(m)
}

type runOut struct {
	res      *results.Result
	err      error
	partials []*results.Result
	stall    string
}

// runQuery executes one distributed query under a fresh schedule.
func runQuery(r *sim.R, hs []*hostResult, maxConc int, streaming bool, timeout time.Duration, sem chan struct{}) runOut {
	w := &world{r: r, sc: sim.NewSched(r), names: map[int64]string{}}
	w.tr = simnet.NewTransport(w.yield)
	for _, h := range hs {
		body, err := jsoniter.Marshal(h.res)
		if err != nil {
			panic(err)
		}
		w.tr.Hosts[h.name] = &simnet.HostScript{Body: body, Attempts: h.script}
	}
	// installed for good: goroutines of the pipeline that outlive a cancelled call construct their
	// HTTP clients while the bubble winds down and must not reach the real network
	http.DefaultTransport = w.tr
	q := &apiclient.APIClientQuerier{APIEndpoints: map[string]*client.Config{}, MaxConcurrent: maxConc}
	var names []string
	for _, h := range hs {
		q.APIEndpoints[h.name] = &client.Config{Addr: h.name + ":8145", RequestTimeout: timeout}
		names = append(names, h.name)
	}
	resolvers := hosts.NewResolverMap()
	resolvers.Set("string", stringresolver.NewResolver(true))
	var opts []gqdist.QueryOption
	if sem != nil {
		opts = append(opts, gqdist.WithMaxConcurrent(sem))
	}
	runner := gqdist.NewQueryRunner(resolvers, q, opts...)
	a := query.NewArgs("sip,dip,dport,proto", "any")
	a.QueryHosts = strings.Join(names, ",")
	a.First, a.Last = "1700000000", "1700100000"
	a.NumResults = 100000
	a.Format = "json"
	var out runOut
	done := make(chan struct{})
	go func() {
		defer close(done)
		w.mu.Lock()
		w.names[sim.GoID()] = "query"
		w.mu.Unlock()
		if streaming {
			var mu sync.Mutex
			send := sse.Sender(func(m sse.Message) error {
				if pr, ok := m.Data.(*api.PartialResult); ok && pr != nil && pr.Result != nil {
					cp := *pr.Result
					cp.Rows = append(results.Rows(nil), pr.Result.Rows...)
					mu.Lock()
					out.partials = append(out.partials, &cp)
					mu.Unlock()
				}
				return nil
			})
			out.res, out.err = runner.RunStreaming(context.Background(), a, send)
		} else {
			out.res, out.err = runner.Run(context.Background(), a)
		}
	}()
	idle := 0
	w.sc.Idle = func() bool {
		idle++
		if idle > 40000 {
			return false
		}
		sim.AdvanceClock(100 * time.Millisecond)
		return true
	}
	out.stall = w.sc.Run(func() bool {
		select {
		case <-done:
			return true
		default:
			return false
		}
	}, 1000000)
	w.sc.Stop()
	r.SimTimeNs += int64(idle) * int64(100*time.Millisecond)
	if w.tr.MaxInFlight >= 2 {
		r.Probe("requests_in_flight_concurrently")
	}
	return out
}

// C15: the merged result does not depend on the order in which host results arrive.
func c15(r *sim.R) *sim.Violation {
	t := r.T
	nHosts := 2 + t.Draw(5)
	base := time.Unix(1700050000, 0)
	var hs []*hostResult
	faults := 0
	for i := 0; i < nHosts; i++ {
		name := fmt.Sprintf("host%c", 'a'+i)
		h := &hostResult{name: name, res: genHostResult(t, name, base)}
		h.script, h.outcome = genScript(t)
		if len(h.script) > 1 || h.script[0].Kind != "ok" {
			faults++
			r.Fault("host:" + h.script[0].Kind)
		}
		hs = append(hs, h)
		r.Event("%s: %d rows, outcome %s, script %v", name, len(h.res.Rows), h.outcome, h.script)
	}
	maxConc := 1 + t.Draw(nHosts)
	timeout := 20 * time.Second
	want := expected(hs)
	r.Nontriv = true
	sig := fmt.Sprintf("hosts failing: %v", faults > 0)
	var first []string
	nRuns := 2 + t.Draw(2)
	for k := 0; k <= nRuns; k++ {
		streaming := k == nRuns
		out := runQuery(r, hs, maxConc, streaming, timeout, nil)
		kind := "run"
		if streaming {
			kind = "streaming run"
		}
		if out.stall != "" {
			return r.Report(&sim.Violation{Clause: "query-does-not-return", Signature: sig, Detail: fmt.Sprintf("%s %d: %s", kind, k, out.stall)})
		}
		if out.err != nil {
			return r.Report(&sim.Violation{Clause: "query-fails", Signature: sig, Detail: fmt.Sprintf("%s %d: %v", kind, k, out.err)})
		}
		got := canon(out.res)
		if k == 0 {
			first = got
		}
		if d := diff(first, got); d != "" {
			clause := "result-depends-on-reply-order"
			if streaming {
				clause = "streaming-result-differs-from-plain-run"
			}
			return r.Report(&sim.Violation{Clause: clause, Signature: lineKinds(d), Detail: fmt.Sprintf("%s %d differs from run 0 (same hosts, same outcomes, other schedule):\n%s", kind, k, d)})
		}
		if d := diff(modelLines(want), modelLines(got)); d != "" {
			if v := r.Report(&sim.Violation{Clause: "merged-result-differs-from-model", Signature: lineKinds(d), Detail: fmt.Sprintf("%s %d:\n%s", kind, k, d)}); v != nil {
				return v
			}
		}
		if streaming {
			r.Probe("streaming_run")
			if len(out.partials) > 0 {
				r.Probe("partial_results_sent")
			}
			if len(out.res.Rows) > 100 {
				r.Probe("streaming_result_above_partial_cap")
			}
			// partial results are merges of a subset of the hosts: never more than the final result
			ft := out.res.Summary.Totals
			// (the hit count only grows with the merged hosts if every host reports at least as
			// many hits as rows; a host that does not fill it in makes the running count dip)
			hitsMonotone := true
			for _, h := range hs {
				if h.res != nil && h.res.Summary.Hits.Total < len(h.res.Rows) {
					hitsMonotone = false
				}
			}
			for i, p := range out.partials {
				pt := p.Summary.Totals
				if pt.BytesRcvd > ft.BytesRcvd || pt.BytesSent > ft.BytesSent || pt.PacketsRcvd > ft.PacketsRcvd || pt.PacketsSent > ft.PacketsSent || (hitsMonotone && p.Summary.Hits.Total > out.res.Summary.Hits.Total) {
					return r.Report(&sim.Violation{Clause: "partial-result-exceeds-final-result", Signature: sig, Detail: fmt.Sprintf("partial result %d: totals %+v hits %d, final: %+v hits %d", i, pt, p.Summary.Hits.Total, ft, out.res.Summary.Hits.Total)})
				}
			}
		}
	}
	return nil
}

// modelLines drops the lines that are only compared between runs.
func modelLines(ls []string) []string {
	var out []string
	for _, l := range ls {
		if !strings.HasPrefix(l, "~") {
			out = append(out, l)
		}
	}
	return out
}

func diff(want, got []string) string {
	wm := map[string]int{}
	for _, s := range want {
		wm[s]++
	}
	var extra, missing []string
	for _, s := range got {
		if wm[s] > 0 {
			wm[s]--
		} else {
			extra = append(extra, s)
		}
	}
	for s, n := range wm {
		for i := 0; i < n; i++ {
			missing = append(missing, s)
		}
	}
	sort.Strings(missing)
	if len(extra)+len(missing) == 0 {
		return ""
	}
	return " expected: " + strings.Join(missing, "\n           ") + "\n got:      " + strings.Join(extra, "\n           ")
}

// lineKinds names which parts of the canonical result differ (the signature of a violation).
func lineKinds(d string) string {
	set := map[string]bool{}
	for _, l := range strings.Split(d, "\n") {
		f := strings.Fields(strings.TrimPrefix(strings.TrimPrefix(strings.TrimSpace(l), "expected:"), "got:"))
		if len(f) > 0 {
			set[f[0]] = true
		}
	}
	var ks []string
	for k := range set {
		ks = append(ks, k)
	}
	sort.Strings(ks)
	return "differs in: " + strings.Join(ks, ",")
}
