package dist

import "verif/h"

var realDist = []string{"cmd/global-query distributed.QueryRunner (Run, RunStreaming, aggregateResults, finalizeResult, checkSemaphore)", "plugins/querier/apiclient.APIClientQuerier (fan-out / fan-in with MaxConcurrent)", "pkg/api/client + goprobe client + fako1024/httpc (JSON encode/parse, retry with 1/2/4 s back-off, request time-out)", "results.RowsMap merging, results JSON marshalling", "stringresolver", "Go runtime timers under the fake clock"}
var stubDist = []string{"network and remote goProbe API servers (verif/simnet.Transport answers /_query from generated per-host results; the servers' own query engine is not run behind it)", "SSE wire format (an sse.Sender closure records the messages)", "huma HTTP server layer in front of the runner"}

// Props are the properties served by the dist-sim engine.
var Props = []*h.Prop{
	{ID: "C15", Run: c15, Bubble: true,
		Rule:        "one evaluation = 2-6 simulated hosts with generated results (rows that collide across hosts, empty results, different First/Last, statistics) and per-host fault scripts (delays, lost connection then success, 500/502/429 then success, permanent 500, partition until the request time-out, unreachable), queried 3-4 times through the real runner with MaxConcurrent 1..N under different seeded schedules (the scheduler decides which in-flight request is answered next) plus once with streaming; all results must be equal to each other and to the reference merge; non-trivial = every run; distinct = distinct event-log hash including scheduling decisions",
		Real:        realDist,
		Stub:        stubDist,
		Assumptions: []string{"row order and timing fields are not compared", "error texts of failed hosts are compared only for presence"}},
	{ID: "C31", Run: c31, Bubble: true,
		Rule:        "distributed variant: K in 1..3 slots on ONE shared distributed.QueryRunner, K+1..3K+2 client goroutines issuing 1-2 queries each at drawn simulated instants; per call: success, resolver error / query safeguard (both after the slot was taken), all hosts down, or cancellation after a drawn delay; host replies take 0-2 s of simulated time; the scheduler interleaves requests and replies and advances the fake clock so that semaphore time-outs expire; checked as in the engine variant (requests in flight of at most K queries, 429 only when all slots were held throughout, no slot held after quiescence, K fresh queries succeed, every caller returns); non-trivial = K queries had requests in flight while another client was waiting or rejected; one run in three is the server variant: the limit is configured on the real global-query API server (pkg/api/globalquery/server.New with WithQueryRateLimit(rate, burst, K), rate 0 or a rate that never refuses) and the queries are POST /_query requests to its router (handler called directly, no socket); the server's semaphore cannot be looked at, so the clauses are: requests in flight for at most K queries at any quiescent point, ok-queries answered, every caller returns, K+1 sequential fresh requests succeed after quiescence; in the server variant one call in eight is resolved by a host-list resolver plug-in that panics after the slot was taken (the server's recovery middleware survives it; the slot must come back)",
		Real:        append([]string{"server variant: pkg/api/server.NewDefault/WithQueryRateLimit, pkg/api/globalquery/server.New/registerRoutes, pkg/api RegisterQueryAPI (distributed) + handlers, gin + huma routing"}, realDist...),
		Stub:        stubDist,
		Assumptions: []string{"every client queries its own pair of simulated hosts so that requests can be attributed to queries"}},
}
