package dist

import (
	"bytes"
	"context"
	"errors"
	"fmt"
	"io"
	"net/http"
	"net/http/httptest"
	"sort"
	"strings"
	"sync"
	"time"

	gqdist "github.com/els0r/goProbe/v4/cmd/global-query/pkg/distributed"
	gqserver "github.com/els0r/goProbe/v4/pkg/api/globalquery/server"
	"github.com/els0r/goProbe/v4/pkg/api/goprobe/client"
	"github.com/els0r/goProbe/v4/pkg/api/server"
	"github.com/els0r/goProbe/v4/pkg/distributed/hosts"
	"github.com/els0r/goProbe/v4/pkg/query"
	"github.com/els0r/goProbe/v4/pkg/results"
	"github.com/els0r/goProbe/v4/pkg/types"
	"github.com/els0r/goProbe/v4/plugins/querier/apiclient"
	"github.com/els0r/goProbe/v4/plugins/resolver/stringresolver"
	"github.com/gin-gonic/gin"
	jsoniter "github.com/json-iterator/go"

	"verif/sim"
	"verif/simnet"
)

type failingResolver struct{}

func (failingResolver) Resolve(context.Context, string) (hosts.Hosts, error) {
	return nil, errors.New("inventory not reachable")
}

// panickingResolver is a host-list resolver plug-in with a bug: it panics on the goroutine of the
// query, which holds a slot by then. The API server recovers the panic (gin.Recovery) and lives on.
type panickingResolver struct{}

func (panickingResolver) Resolve(context.Context, string) (hosts.Hosts, error) {
	panic("resolver plug-in: index out of range")
}

// C31 (distributed variant): bursts of clients on ONE shared distributed query runner with a
// semaphore of K slots; queries succeed, fail after the slot was taken (resolver error, query
// safeguard, all hosts down) or are cancelled; semaphore time-outs run on the fake clock.
func c31(r *sim.R) *sim.Violation {
	t := r.T
	K := 1 + t.Draw(3)
	C := K + 1 + t.Draw(2*K+2)
	sem := make(chan struct{}, K)
	w := &world{r: r, sc: sim.NewSched(r), names: map[int64]string{}}
	w.sc.ClockChance = []int{0, 6, 25}[t.Draw(3)]
	w.sc.ClockMax = 1500 * time.Millisecond
	w.tr = simnet.NewTransport(w.yield)
	// installed for good: goroutines of the pipeline that outlive a cancelled call construct their
	// HTTP clients while the bubble winds down and must not reach the real network
	http.DefaultTransport = w.tr
	base := time.Unix(1700050000, 0)
	q := &apiclient.APIClientQuerier{APIEndpoints: map[string]*client.Config{}, MaxConcurrent: 2}
	// every client has its own two hosts, so that requests can be attributed to clients
	for ci := 0; ci < 2*C; ci++ { // one pair of hosts per call (call id = 2*client + call number)
		for _, hn := range []string{"a", "b"} {
			name := fmt.Sprintf("c%d%s", ci, hn)
			res := genHostResult(t, name, base)
			body, _ := jsoniter.Marshal(res)
			w.tr.Hosts[name] = &simnet.HostScript{Body: body, Attempts: []simnet.Attempt{{Kind: "ok", Delay: time.Duration(t.Draw(6))*400*time.Millisecond + time.Duration(ci*13+len(hn))*time.Microsecond}}} // offsets: no two timers ever fire at the same instant (select with several ready cases is random)
			q.APIEndpoints[name] = &client.Config{Addr: name + ":8145", RequestTimeout: 10 * time.Second}
		}
	}
	resolvers := hosts.NewResolverMap()
	resolvers.Set("string", stringresolver.NewResolver(true))
	resolvers.Set("failing", failingResolver{})
	resolvers.Set("panicking", panickingResolver{})
	runner := gqdist.NewQueryRunner(resolvers, q, gqdist.WithMaxConcurrent(sem))
	exec := runner.Run
	// server variant (one run in three): the limit is configured on the real global-query API
	// server (WithQueryRateLimit: a concurrency limit with or without a request rate) and the
	// queries are POST /_query requests to its router (handler called directly, no socket); the
	// semaphore is the server's own, so the clauses that look at it are left to the other runs
	viaServer := t.Draw(3) == 0
	limiter := ""
	if viaServer {
		opts := []server.Option{server.WithNoRecursionDetection()}
		if t.Draw(2) == 0 {
			limiter = "limit configured without a request rate"
			opts = append(opts, server.WithQueryRateLimit(0, 0, K))
		} else {
			limiter = "limit configured with a request rate"
			opts = append(opts, server.WithQueryRateLimit(1e9, 1<<30, K))
		}
		gin.DefaultErrorWriter, gin.DefaultWriter = io.Discard, io.Discard // the recovery middleware prints the stack of a recovered panic
		handler := gqserver.New("", resolvers, q, opts...).API().Adapter()
		exec = func(ctx context.Context, a *query.Args) (*results.Result, error) {
			body, err := jsoniter.Marshal(a)
			if err != nil {
				return nil, err
			}
			req := httptest.NewRequest(http.MethodPost, "/_query", bytes.NewReader(body)).WithContext(ctx)
			req.Header.Set("Content-Type", "application/json")
			rec := httptest.NewRecorder()
			handler.ServeHTTP(rec, req)
			if rec.Code != http.StatusOK {
				return nil, fmt.Errorf("HTTP %d: %.200s", rec.Code, rec.Body.String())
			}
			res := new(results.Result)
			if err := jsoniter.Unmarshal(rec.Body.Bytes(), res); err != nil {
				return nil, fmt.Errorf("undecodable reply: %w", err)
			}
			return res, nil
		}
	}
	keepAlive := []time.Duration{0, 300*time.Millisecond + 7*time.Nanosecond, 3*time.Second + 7*time.Nanosecond}[t.Draw(3)]

	type call struct {
		client, start, end int
		kind               string
		res                *results.Result
		err                error
		minHeld            int
	}
	var mu sync.Mutex
	var calls []*call
	pending := map[*call]bool{}
	inCall := map[int]bool{}
	executing := map[int]bool{}
	maxExec := 0
	origYield := w.tr.Yield
	w.tr.SetYield(func(what string) {
		// "request c3a attempt 0"
		var ci int
		if f := strings.Fields(what); len(f) > 1 {
			fmt.Sscanf(f[1], "c%d", &ci)
		}
		mu.Lock()
		if inCall[ci] {
			executing[ci] = true
		}
		mu.Unlock()
		origYield(what)
	})
	w.sc.OnQuiescent = func() {
		held := len(sem)
		mu.Lock()
		defer mu.Unlock()
		if n := len(executing); n > maxExec {
			maxExec = n
		}
		for c := range pending {
			if held < c.minHeld {
				c.minHeld = held
			}
		}
	}
	done := make(chan struct{}, C)
	for ci := 0; ci < C; ci++ {
		nCalls := 1 + t.Draw(2)
		kinds := make([]string, nCalls)
		delays := make([]time.Duration, nCalls)
		cancelAfter := make([]time.Duration, nCalls)
		for j := range kinds {
			kinds[j] = []string{"ok", "ok", "resolver-error", "safeguard", "hosts-down", "cancel"}[t.Draw(6)]
			if viaServer && t.Draw(8) == 0 {
				kinds[j] = "resolver-panic" // only behind the server, which survives a panicking request
			}
			delays[j] = time.Duration(t.Draw(4))*300*time.Millisecond + time.Duration(ci*17+j+1)*time.Microsecond
			cancelAfter[j] = time.Duration(1+t.Draw(5))*200*time.Millisecond + time.Duration(ci*19+j+3)*time.Microsecond
		}
		go func(ci int) {
			defer func() { done <- struct{}{} }()
			w.mu.Lock()
			w.names[sim.GoID()] = fmt.Sprintf("client%d", ci)
			w.mu.Unlock()
			for j, kind := range kinds {
				if delays[j] > 0 {
					time.Sleep(delays[j])
				}
				w.sc.Yield(fmt.Sprintf("client%d", ci), "issue query")
				a := query.NewArgs("sip,dip,dport,proto", "any")
				id := 2*ci + j // requests are attributed to calls, not clients: a cancelled call may still have requests in flight when the client's next call starts
				a.QueryHosts = fmt.Sprintf("c%da,c%db", id, id)
				a.First, a.Last = "1700000000", "1700100000"
				a.Format = "json"
				a.KeepAlive = keepAlive
				ctx, cancel := context.WithCancel(context.Background())
				switch kind {
				case "resolver-error":
					a.QueryHostsResolverType = "failing"
				case "resolver-panic":
					a.QueryHostsResolverType = "panicking"
					r.Fault("plugin-panic-while-holding-a-slot")
				case "safeguard":
					a.Query = "raw" // unbounded raw query without condition: rejected after the slot was taken
				case "hosts-down":
					a.QueryHosts = fmt.Sprintf("c%dx,c%dy", ci, ci) // no endpoint configuration: every host fails
				case "cancel":
					d := cancelAfter[j]
					go func() {
						time.Sleep(d)
						cancel()
					}()
				}
				c := &call{client: ci, kind: kind, start: w.sc.StepCount(), minHeld: K}
				mu.Lock()
				if h := len(sem); h < c.minHeld {
					c.minHeld = h
				}
				pending[c] = true
				inCall[id] = true
				mu.Unlock()
				c.res, c.err = exec(ctx, a)
				cancel()
				c.end = w.sc.StepCount()
				mu.Lock()
				delete(pending, c)
				delete(inCall, id)
				delete(executing, id)
				calls = append(calls, c)
				mu.Unlock()
			}
		}(ci)
	}
	finished, idle := 0, 0
	w.sc.Idle = func() bool {
		idle++
		if idle > 6000 {
			return false
		}
		sim.AdvanceClock(200*time.Millisecond + 11*time.Nanosecond)
		return true
	}
	stall := w.sc.Run(func() bool {
		for {
			select {
			case <-done:
				finished++
				continue
			default:
			}
			break
		}
		return finished == C
	}, 2000000)
	w.sc.Stop()
	r.SimTimeNs += int64(idle)*int64(200*time.Millisecond) + int64(w.sc.SimTime)
	burst := "burst of concurrent distributed queries"
	if viaServer {
		burst = "burst of HTTP queries to the global-query server, " + limiter
		r.Shape = "server, " + limiter
	}
	r.Event("distributed: K=%d clients=%d calls=%d strategy=%s clock=1/%d keepalive=%v %s", K, C, len(calls), w.sc.Strategy(), w.sc.ClockChance, keepAlive, burst)
	if stall != "" {
		return r.Report(&sim.Violation{Clause: "caller-never-returns", Signature: burst, Detail: stall})
	}
	sort.Slice(calls, func(i, j int) bool {
		if calls[i].client != calls[j].client {
			return calls[i].client < calls[j].client
		}
		return calls[i].start < calls[j].start
	})
	kinds := map[string]int{}
	for _, c := range calls {
		kinds[c.kind]++
		out := "error: "
		if c.err == nil && c.res != nil {
			out = fmt.Sprintf("status %q, %d rows", c.res.Status.Code, len(c.res.Rows))
		} else if c.err != nil {
			out += c.err.Error()
		}
		r.Event("  client %d %s steps [%d,%d] -> %s", c.client, c.kind, c.start, c.end, out)
		if viaServer && c.kind == "ok" && c.err != nil {
			return r.Report(&sim.Violation{Clause: "query-fails", Signature: burst, Detail: fmt.Sprintf("client %d: %v", c.client, c.err)})
		}
		if c.res != nil && c.res.Status.Code == types.StatusTooManyRequests {
			r.Probe("too_many_requests_returned")
			if c.minHeld < K && !viaServer {
				return r.Report(&sim.Violation{Clause: "rejected-although-a-slot-was-free", Signature: "burst of concurrent distributed queries",
					Detail: fmt.Sprintf("client %d was answered 'too many requests' although only %d of %d slots were held at some point of its waiting window", c.client, c.minHeld, K)})
			}
		}
	}
	if maxExec > K {
		return r.Report(&sim.Violation{Clause: "limit-exceeded", Signature: burst, Detail: fmt.Sprintf("%d distributed queries had requests in flight at once with a limit of %d", maxExec, K)})
	}
	if maxExec == K && C > K {
		r.Nontriv = true
	}
	if held := len(sem); held != 0 {
		what := "after cancelled or successful queries"
		if kinds["resolver-error"]+kinds["safeguard"] > 0 {
			what = "after queries that failed once the slot was taken"
		}
		return r.Report(&sim.Violation{Clause: "slot-leaked", Signature: what, Detail: fmt.Sprintf("%d of %d slots are still taken after all %d calls returned (kinds: %v)", held, K, len(calls), kinds)})
	}
	// K fresh queries succeed (sequentially, no scheduler)
	w.tr.SetYield(nil)
	nFresh := K
	if viaServer {
		nFresh = K + 1 // the semaphore cannot be looked at: a leaked slot shows as a rejected fresh request
	}
	for i := 0; i < nFresh; i++ {
		a := query.NewArgs("sip,dip,dport,proto", "any")
		a.QueryHosts = "c0a,c0b"
		a.First, a.Last = "1700000000", "1700100000"
		a.Format = "json"
		res, err := exec(context.Background(), a)
		if err != nil || res == nil || res.Status.Code == types.StatusTooManyRequests {
			if viaServer && err == nil {
				what := "after cancelled or successful queries"
				if kinds["resolver-error"]+kinds["safeguard"] > 0 {
					what = "after queries that failed once the slot was taken"
				}
				if kinds["resolver-panic"] > 0 {
					what = "after a query that panicked (recovered by the server) once the slot was taken"
				}
				return r.Report(&sim.Violation{Clause: "slot-leaked", Signature: what, Detail: fmt.Sprintf("fresh request %d to the server after all %d calls returned (kinds: %v) is answered 'too many requests'", i, len(calls), kinds)})
			}
			return r.Report(&sim.Violation{Clause: "fresh-query-rejected", Signature: "after quiescence", Detail: fmt.Sprintf("fresh distributed query %d: res=%v err=%v", i, res != nil, err)})
		}
	}
	return nil
}
