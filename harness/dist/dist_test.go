package dist

import (
	"testing"

	"verif/h"
)

func TestSim(t *testing.T) { h.Main(t, Props) }
