package merge

import (
	"context"
	"fmt"
	"sort"
	"strings"

	"verif/dbcheck"
	"verif/h"
	"verif/model"
	"verif/sim"
	"verif/simfs"
)

// rowsByDay runs a full query with time and interface labels over the destination and groups the
// canonical rows by (iface, day).
func rowsByDay(path, ifaces string) (map[string][]string, error) {
	res, err := dbcheck.Query(context.Background(), path, dbcheck.FullArgs(ifaces, 1, 4102444800))
	if err != nil {
		return nil, err
	}
	out := map[string][]string{}
	for _, row := range dbcheck.RowsCanon(res.Rows) {
		parts := strings.SplitN(row, "|", 3)
		var ts int64
		fmt.Sscan(parts[0], &ts)
		k := fmt.Sprintf("%s/%d", parts[1], model.DayOf(ts))
		out[k] = append(out[k], row)
	}
	return out, nil
}

func dayRows(m *model.Store, iface string, day int64) []string {
	one := model.NewStore()
	if m.Ifaces[iface] != nil && m.Ifaces[iface][day] != nil {
		one.Ifaces[iface] = map[int64]*model.Day{day: m.Ifaces[iface][day]}
	}
	return dbcheck.ExpectedRows(one, 1, 4102444800)
}

// C25: a kill at (sampled-to-budget, structure-complete) mutating operations of a merge.
func c25(r *sim.R) *sim.Violation {
	thorough := h.Thorough()
	wd := newWorld(r)
	defer simfs.Install(wd.fs)()
	sc := genScenario(r.T)
	build(srcW, sc.src)
	build(dstW, sc.dst)
	r.Event("scenario: overwrite=%v ifaces=%v", sc.opts.Overwrite, sc.opts.Interfaces)
	for _, d := range sc.descr {
		r.Event("  %s", d)
	}
	want, _ := sc.expect()
	snap := wd.fs.Snapshot()
	// uninterrupted run: learn the operations
	wp := wd.fs.Restart("dst")
	var ops []simfs.Op
	wp.Plan = func(op *simfs.Op) simfs.Action { ops = append(ops, *op); return simfs.Action{} }
	_, err, pp := runMerge(sc.opts)
	if pp != nil {
		panic(pp)
	}
	if err != nil {
		return r.Report(&sim.Violation{Clause: "merge-fails", Signature: "fault-free merge returns an error", Detail: err.Error()})
	}
	var mut []simfs.Op
	for _, op := range ops {
		if op.MutIx >= 0 {
			mut = append(mut, op)
		}
	}
	if len(mut) == 0 {
		return nil
	}
	r.Nontriv = true
	// every structural operation (mkdir, create, rename, remove, chmod) is a crash point; data
	// writes are sampled down to the budget
	budget := 120
	if thorough {
		budget = 600
	}
	var cps []int
	var writes []int
	for _, op := range mut {
		if op.Kind == simfs.OpWrite {
			writes = append(writes, op.MutIx)
		} else {
			cps = append(cps, op.MutIx)
		}
	}
	if len(cps) > budget {
		// keep all renames and removes, sample the rest
		var keep, rest []int
		for _, ix := range cps {
			if k := mut[ix].Kind; k == simfs.OpRename || k == simfs.OpRemove {
				keep = append(keep, ix)
			} else {
				rest = append(rest, ix)
			}
		}
		for len(keep) < budget && len(rest) > 0 {
			j := r.T.Draw(len(rest))
			keep = append(keep, rest[j])
			rest = append(rest[:j], rest[j+1:]...)
		}
		cps = keep
	}
	nw := budget / 4
	for i := 0; i < nw && len(writes) > 0; i++ {
		j := r.T.Draw(len(writes))
		cps = append(cps, writes[j])
		writes = append(writes[:j], writes[j+1:]...)
	}
	sort.Ints(cps)
	states := map[string]bool{}
	for _, ix := range cps {
		wd.fs.Restore(snap)
		wp := wd.fs.Restart("dst")
		torn := 0
		if mut[ix].Kind == simfs.OpWrite && mut[ix].N > 1 && r.T.Draw(2) == 0 {
			torn = 1 + r.T.Draw(mut[ix].N-1)
		}
		wp.Plan = func(op *simfs.Op) simfs.Action {
			if op.MutIx != ix {
				return simfs.Action{}
			}
			if torn > 0 {
				return simfs.Action{Kind: simfs.TornKill, Bytes: torn}
			}
			return simfs.Action{Kind: simfs.Kill}
		}
		_, _, pp := runMerge(sc.opts)
		if pp != nil {
			panic(pp)
		}
		if !wp.Killed {
			h.Fatalf("crash point %d did not fire", ix)
		}
		r.Steps += wp.Ops
		st := wd.fs.TreeHash("dstdisk")
		if states[st] {
			r.Probe("duplicate_post_crash_state")
			continue
		}
		states[st] = true
		r.Probe("distinct_post_crash_state")
		where := fmt.Sprintf("%s %s", mut[ix].Kind, canon(mut[ix].Path))
		if mut[ix].Path2 != "" {
			where += " -> " + canon(mut[ix].Path2)
		}
		r.Event("  kill before mutating op #%d (%s) -> state %s", ix, where, st[:8])
		if v := wd.afterMergeCrash(r, sc, want, leftoverClass(wd)); v != nil {
			v.Detail = fmt.Sprintf("kill before mutating op #%d of the merge (%s)\n%s\nscenario: %s", ix, where, v.Detail, strings.Join(sc.descr, "; "))
			return v
		}
	}
	return nil
}

// leftoverClass describes which merge leftovers the kill left in the destination (the signature
// of C25 violations: the state, not the position of the kill).
func leftoverClass(wd *world) string {
	var tags []string
	for _, n := range wd.fs.Dirs("dstdisk", rel) {
		if strings.HasPrefix(n, ".gpdb-merge-stage-") {
			tags = append(tags, "staging directory left in the database root")
			break
		}
	}
	backup, dup := false, false
	for _, days := range dbcheck.AllDayDirs(wd.fs, "dstdisk", rel) {
		for _, names := range days {
			if len(names) > 1 {
				dup = true
			}
			for _, n := range names {
				if strings.Contains(n, ".gpdb-merge-backup-") {
					backup = true
				}
			}
		}
	}
	if backup {
		// one root cause, one signature: whatever else is left over does not matter
		return "backup directory of the replaced day left next to it"
	}
	if dup {
		tags = append(tags, "two directories for one day")
	}
	if len(tags) == 0 {
		return "no leftovers"
	}
	return strings.Join(tags, ", ")
}

func canon(p string) string {
	parts := strings.Split(p, "/")
	for i, s := range parts {
		switch {
		case strings.HasPrefix(s, ".gpdb-merge-stage-"):
			parts[i] = ".gpdb-merge-stage-*"
		case strings.Contains(s, ".gpdb-merge-backup-"):
			parts[i] = "<day>.gpdb-merge-backup-*"
		case len(s) >= 10 && s[0] >= '0' && s[0] <= '9':
			parts[i] = "<day>"
		case strings.HasPrefix(s, ".tmp-metadata-"):
			parts[i] = ".tmp-metadata-*"
		}
	}
	return strings.Join(parts, "/")
}

func (wd *world) afterMergeCrash(r *sim.R, sc *scenario, want *model.Store, sig string) *sim.Violation {
	rep := func(clause, detail string) *sim.Violation {
		return r.Report(&sim.Violation{Clause: clause, Signature: sig, Detail: detail})
	}
	wd.fs.Restart("dr")
	// interfaces: exactly the real ones
	ifs, err := dbcheck.Interfaces(dstR)
	if err != nil {
		if v := rep("interfaces-fail", err.Error()); v != nil {
			return v
		}
	}
	real := map[string]bool{}
	for _, i := range sc.dst.IfaceNames() {
		real[i] = true
	}
	may := map[string]bool{}
	for _, i := range want.IfaceNames() {
		may[i] = true
	}
	for _, i := range ifs {
		if !real[i] && !may[i] {
			if v := rep("leftover-listed-as-interface", fmt.Sprintf("interface listing returns %q (all: %v)", i, ifs)); v != nil {
				return v
			}
		}
		delete(real, i)
	}
	for i := range real {
		if v := rep("interface-missing", fmt.Sprintf("interface %s existed before the merge and is no longer listed (%v)", i, ifs)); v != nil {
			return v
		}
	}
	// a query over everything that is listed (what `any` resolves to) must succeed
	if len(ifs) == 0 {
		// an empty database has nothing to query
	} else if _, err := rowsByDay(dstR, "any"); err != nil {
		if v := rep("query-any-fails", err.Error()); v != nil {
			return v
		}
	}
	// every day of every real interface holds its old or its merged data, never both, never neither
	var names []string
	for i := range may {
		names = append(names, i)
	}
	for _, i := range sc.dst.IfaceNames() {
		if !may[i] {
			names = append(names, i)
		}
	}
	sort.Strings(names)
	for _, iface := range names {
		present := false
		for _, l := range ifs {
			if l == iface {
				present = true
			}
		}
		if !present {
			continue
		}
		got, err := rowsByDay(dstR, iface)
		if err != nil {
			if v := rep("query-fails", fmt.Sprintf("iface %s: %v", iface, err)); v != nil {
				return v
			}
			continue
		}
		if _, err := dbcheck.Listing(dstR, iface, 1, 4102444800); err != nil {
			if v := rep("listing-fails", fmt.Sprintf("iface %s: %v", iface, err)); v != nil {
				return v
			}
		}
		days := map[int64]bool{}
		for _, d := range sc.dst.Days(iface) {
			days[d] = true
		}
		for _, d := range want.Days(iface) {
			days[d] = true
		}
		for k := range got {
			var d int64
			fmt.Sscanf(k[strings.LastIndex(k, "/")+1:], "%d", &d)
			days[d] = true
		}
		var ds []int64
		for d := range days {
			ds = append(ds, d)
		}
		sort.Slice(ds, func(i, j int) bool { return ds[i] < ds[j] })
		for _, d := range ds {
			g := got[fmt.Sprintf("%s/%d", iface, d)]
			sort.Strings(g)
			old, neu := dayRows(sc.dst, iface, d), dayRows(want, iface, d)
			if dbcheck.DiffRows(old, g) == "" || dbcheck.DiffRows(neu, g) == "" {
				continue
			}
			clause := "day-neither-old-nor-merged"
			both := append(append([]string(nil), old...), neu...)
			if dbcheck.DiffRows(both, g) == "" {
				clause = "day-holds-old-and-merged-data"
			} else if len(g) == 0 {
				// nothing at all is returned for a day that had data: never the effect of a leftover
				// being read in addition (that adds rows), so it is judged before the leftover classes
				clause = "day-data-hidden"
			} else if strings.Contains(sig, "two directories for one day") || strings.Contains(sig, "backup directory") {
				clause = "day-holds-old-and-merged-data" // rows with equal keys from both directories are summed
			}
			if v := rep(clause, fmt.Sprintf("iface %s day %d: query returns %d rows; before the merge the day had %d rows, the merged day has %d\nvs old: %s\nvs merged: %s\ndirectories: %v",
				iface, d, len(g), len(old), len(neu), dbcheck.DiffRows(old, g), dbcheck.DiffRows(neu, g), dbcheck.DayDirNames(wd.fs, "dstdisk", rel, iface, d))); v != nil {
				return v
			}
		}
	}
	// a later, uninterrupted merge of the same source succeeds and yields the merged database
	wd.fs.Restart("dst")
	_, err, pp := runMerge(sc.opts)
	if pp != nil {
		panic(pp)
	}
	if err != nil {
		return rep("later-merge-fails", err.Error())
	}
	wd.fs.Restart("dr")
	got := map[string][]string{}
	for _, iface := range want.IfaceNames() {
		g, err := rowsByDay(dstR, iface)
		if err != nil {
			return rep("later-merge-query-fails", fmt.Sprintf("iface %s: %v", iface, err))
		}
		for k, v := range g {
			got[k] = v
		}
	}
	var all []string
	for _, v := range got {
		all = append(all, v...)
	}
	sort.Strings(all)
	if d := dbcheck.DiffRows(dbcheck.ExpectedRows(want, 1, 4102444800), all); d != "" {
		return rep("later-merge-result-differs", d)
	}
	return nil
}
