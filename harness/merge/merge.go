// Package merge is the merge-sim engine: real goDB.MergeDatabases over two simulated disks
// (read-only source, destination), driven by generated database pairs; fault-free for C24, a kill
// enumerated at every mutating file-system operation of the merge for C25.
package merge

import (
	"context"
	"fmt"
	"sort"
	"strings"
	"time"

	"github.com/els0r/goProbe/v4/pkg/capture/capturetypes"
	"github.com/els0r/goProbe/v4/pkg/goDB"
	"github.com/els0r/goProbe/v4/pkg/goDB/encoder/encoders"
	"github.com/els0r/telemetry/logging"

	"verif/dbcheck"
	"verif/h"
	"verif/model"
	"verif/sim"
	"verif/simfs"
)

func init() {
	_, _ = logging.Init(logging.LevelFromString("panic"), logging.EncodingPlain, logging.WithOutput(discard{}), logging.WithErrorOutput(discard{}))
}

type discard struct{}

func (discard) Write(p []byte) (int, error) { return len(p), nil }

const (
	srcW = "/sim/sw/db"  // builder's (writable) view of the source
	srcR = "/sim/src/db" // the merge process' view of the source (read-only mount)
	dstW = "/sim/dst/db" // the merge process' (and builder's) view of the destination
	dstR = "/sim/dr/db"  // checker's view of the destination
	rel  = "/db"
)

type world struct {
	fs  *simfs.FS
	r   *sim.R
	dst *dbcheck.View
	src *dbcheck.View
}

func newWorld(r *sim.R) *world {
	f := simfs.New()
	f.Mount("sw", "srcdisk")
	f.Mount("src", "srcdisk").ReadOnly = true
	f.Mount("sr", "srcdisk")
	f.Mount("dst", "dstdisk")
	f.Mount("dr", "dstdisk")
	f.OnFault = func(kind string, op *simfs.Op) { r.Fault(kind) }
	restore := simfs.Install(f)
	for _, p := range []string{srcW, dstW} {
		if err := simfs.MkdirAll(p, 0o755); err != nil {
			panic(simfs.HarnessError{Msg: err.Error()})
		}
	}
	restore()
	return &world{fs: f, r: r,
		dst: &dbcheck.View{FS: f, R: r, Tree: "dstdisk", Rel: rel, Path: dstR},
		src: &dbcheck.View{FS: f, R: r, Tree: "srcdisk", Rel: rel, Path: "/sim/sr/db"}}
}

// day states
const (
	missing = iota
	partial
	complete
)

var stateNames = []string{"missing", "partial", "complete"}

// genDay draws the blocks of a day in the given state. Complete days hold a block every five
// minutes (288 blocks, 0-1 flows each) or are covered at both ends only (4-8 blocks); partial days hold 1-5 blocks, none within two hours of
// either end of the day - or (one in four each) are covered from midnight but end at least four
// hours early, or reach midnight but start at least two hours late, with blocks spaced unevenly -,
// so the classification never depends on the tolerance arithmetic.
func genDay(t *sim.Tape, day int64, state int, tag byte) []model.Block {
	var out []model.Block
	mk := func(ts int64) model.Block {
		var flows []model.Flow
		if t.Draw(3) != 0 {
			f := model.GenFlow(t, true)
			f.C.BR = uint64(tag)*1000 + uint64(t.Draw(900)) // source and destination payloads differ
			flows = append(flows, f)
			if t.Draw(4) == 0 {
				g := model.GenFlow(t, true)
				if g.KeyString() != f.KeyString() {
					flows = append(flows, g)
				}
			}
		}
		return model.FlowBlock(ts, flows, uint64(t.Draw(3)))
	}
	switch state {
	case complete:
		if t.Draw(2) == 0 {
			// covered at both ends (blocks five minutes apart at the start and at the end of the
			// day), with holes of hours in between: a complete day by the documented rule
			seen := map[int64]bool{}
			for _, ts := range []int64{day, day + 300, day + 86400 - 600, day + 86400 - 300} {
				seen[ts] = true
				out = append(out, mk(ts))
			}
			for i, n := 0, t.Draw(5); i < n; i++ {
				if ts := day + 600 + 300*int64(t.Draw(284)); !seen[ts] {
					seen[ts] = true
					out = append(out, mk(ts))
				}
			}
			sort.Slice(out, func(i, j int) bool { return out[i].TS < out[j].TS })
			break
		}
		for k := int64(0); k < 288; k++ {
			out = append(out, mk(day+300*k))
		}
	case partial:
		n := 1 + t.Draw(5)
		seen := map[int64]bool{}
		add := func(ts int64) {
			if !seen[ts] {
				seen[ts] = true
				out = append(out, mk(ts))
			}
		}
		lo, span := int64(7200), 240 // 02:00 .. 22:00
		switch t.Draw(4) {
		case 2:
			// covered from midnight, but ending hours before the end of the day: a block at the
			// start of the day, nothing for at least four hours, the last two blocks five minutes
			// apart and not later than 19:55
			add(day + 300*int64(t.Draw(2)))
			x := day + 300*int64(180+t.Draw(60))
			add(x)
			add(x - 300)
			lo, span = 14400, int((x-day-14400)/300)
		case 3:
			// covered up to midnight, but starting hours after the start of the day
			add(day + 86400 - 300)
			add(day + 86400 - 600)
			lo, span = 7200, 240
		}
		for i := 0; i < n; i++ {
			ts := day + lo + 300*int64(t.Draw(span))
			if t.Draw(3) == 0 {
				ts = day + lo + 300*int64(t.Draw(4)) // small pool: collisions between the two sides
			}
			add(ts)
		}
		sort.Slice(out, func(i, j int) bool { return out[i].TS < out[j].TS })
	}
	return out
}

// build writes a model database through the real DBWriter (one WriteBulk session per day).
func build(path string, m *model.Store) {
	for _, iface := range m.IfaceNames() {
		for _, d := range m.Days(iface) {
			day := m.Ifaces[iface][d]
			var wl []goDB.BulkWorkload
			for _, b := range day.Blocks {
				wl = append(wl, goDB.BulkWorkload{FlowMap: model.ToAggFlowMap(b.Flows), CaptureStats: capturetypes.CaptureStats{Dropped: b.Traffic.Drops}, Timestamp: b.TS})
			}
			if err := goDB.NewDBWriter(path, iface, encoders.EncoderTypeLZ4).WriteBulk(wl, d); err != nil {
				h.Fatalf("building %s/%s/%d: %v", path, iface, d, err)
			}
		}
	}
}

type scenario struct {
	src, dst *model.Store
	states   map[string][2]int // iface/day -> (src state, dst state)
	opts     goDB.MergeOptions
	descr    []string
}

var dayPool = []int64{1701302400, 1701388800, 1704067200} // 2023-11-30, 2023-12-01, 2024-01-01 (UTC)

func genScenario(t *sim.Tape) *scenario {
	sc := &scenario{src: model.NewStore(), dst: model.NewStore(), states: map[string][2]int{}}
	ifaces := []string{"eth0", "eth1", "wan"}
	nIf := 1 + t.Draw(3)
	nDays := 1 + t.Draw(3)
	nComplete := 0
	for i := 0; i < nIf; i++ {
		for d := 0; d < nDays; d++ {
			ss, ds := t.Draw(3), t.Draw(3)
			// complete days are expensive (288 blocks): at most three per scenario
			if ss == complete && nComplete >= 3 {
				ss = partial
			}
			if ss == complete {
				nComplete++
			}
			if ds == complete && nComplete >= 3 {
				ds = partial
			}
			if ds == complete {
				nComplete++
			}
			day := dayPool[d]
			key := fmt.Sprintf("%s/%d", ifaces[i], day)
			sc.states[key] = [2]int{ss, ds}
			for _, b := range genDay(t, day, ss, 1) {
				sc.src.Add(ifaces[i], b)
			}
			for _, b := range genDay(t, day, ds, 2) {
				sc.dst.Add(ifaces[i], b)
			}
			sc.descr = append(sc.descr, fmt.Sprintf("%s: src %s, dst %s", key, stateNames[ss], stateNames[ds]))
		}
	}
	sc.opts = goDB.MergeOptions{SourcePath: srcR, DestinationPath: dstW, Overwrite: t.Draw(2) == 1, CompleteTolerance: 150 * time.Second}
	if t.Draw(3) == 0 {
		sc.opts.CompleteTolerance = 0 // library default
	}
	if t.Draw(3) == 0 && len(sc.src.IfaceNames()) > 0 {
		// interface subset (only interfaces the source has: others are an error by documentation)
		names := sc.src.IfaceNames()
		sc.opts.Interfaces = []string{names[t.Draw(len(names))]}
		if t.Draw(2) == 0 && len(names) > 1 {
			sc.opts.Interfaces = append(sc.opts.Interfaces, names[t.Draw(len(names))])
		}
	}
	return sc
}

// expect computes M_merge: the destination after the documented per-day rule, and the counts.
func (sc *scenario) expect() (*model.Store, goDB.MergeSummary) {
	out := sc.dst.Clone()
	var sum goDB.MergeSummary
	sel := sc.src.IfaceNames()
	if len(sc.opts.Interfaces) > 0 {
		seen := map[string]bool{}
		sel = nil
		for _, i := range sc.opts.Interfaces {
			if !seen[i] {
				seen[i] = true
				sel = append(sel, i)
			}
		}
		sort.Strings(sel)
	}
	for _, iface := range sel {
		days := sc.src.Days(iface)
		if len(days) == 0 {
			continue
		}
		sum.InterfacesProcessed++
		for _, d := range days {
			st := sc.states[fmt.Sprintf("%s/%d", iface, d)]
			srcDay := sc.src.Ifaces[iface][d]
			var dstDay *model.Day
			if sc.dst.Ifaces[iface] != nil {
				dstDay = sc.dst.Ifaces[iface][d]
			}
			put := func(blocks []model.Block) {
				if out.Ifaces[iface] == nil {
					out.Ifaces[iface] = map[int64]*model.Day{}
				}
				out.Ifaces[iface][d] = &model.Day{Blocks: blocks}
			}
			switch {
			case st[0] == complete && (dstDay == nil || sc.opts.Overwrite):
				put(append([]model.Block(nil), srcDay.Blocks...))
				sum.DaysCopied++
			case st[0] == complete && st[1] == complete:
				sum.DaysSkipped++
			default:
				byTS := map[int64]model.Block{}
				if dstDay != nil {
					for _, b := range dstDay.Blocks {
						byTS[b.TS] = b
					}
				}
				for _, b := range srcDay.Blocks {
					if _, both := byTS[b.TS]; both {
						if sc.opts.Overwrite {
							byTS[b.TS] = b
							sum.ConflictsResolvedBySource++
						} else {
							sum.ConflictsResolvedByDestination++
						}
					} else {
						byTS[b.TS] = b
					}
				}
				var blocks []model.Block
				for _, b := range byTS {
					blocks = append(blocks, b)
				}
				sort.Slice(blocks, func(i, j int) bool { return blocks[i].TS < blocks[j].TS })
				put(blocks)
				sum.DaysRebuilt++
			}
		}
	}
	return out, sum
}

func sumStr(s goDB.MergeSummary) string {
	return fmt.Sprintf("ifaces=%d copied=%d rebuilt=%d skipped=%d conflicts(dst)=%d conflicts(src)=%d", s.InterfacesProcessed, s.DaysCopied, s.DaysRebuilt, s.DaysSkipped,
		s.ConflictsResolvedByDestination, s.ConflictsResolvedBySource)
}

func (sc *scenario) sig() string {
	// canonical description of the day-state combinations present
	set := map[string]bool{}
	for _, st := range sc.states {
		set[fmt.Sprintf("src %s/dst %s", stateNames[st[0]], stateNames[st[1]])] = true
	}
	var ks []string
	for k := range set {
		ks = append(ks, k)
	}
	sort.Strings(ks)
	o := "no overwrite"
	if sc.opts.Overwrite {
		o = "overwrite"
	}
	_ = ks
	return o
}

func runMerge(opts goDB.MergeOptions) (sum goDB.MergeSummary, err error, pp *simfs.ProcPanic) {
	pp = simfs.RunProc(func() { sum, err = goDB.MergeDatabases(context.Background(), opts) })
	return
}

// C24: fault-free merges follow the documented per-day plan.
func c24(r *sim.R) *sim.Violation {
	wd := newWorld(r)
	defer simfs.Install(wd.fs)()
	sc := genScenario(r.T)
	build(srcW, sc.src)
	build(dstW, sc.dst)
	r.Nontriv = len(sc.states) > 0
	r.Event("scenario: overwrite=%v ifaces=%v tolerance=%v", sc.opts.Overwrite, sc.opts.Interfaces, sc.opts.CompleteTolerance)
	for _, d := range sc.descr {
		r.Event("  %s", d)
	}
	want, wantSum := sc.expect()
	srcHash := wd.fs.TreeHash("srcdisk")
	dstHash := wd.fs.TreeHash("dstdisk")
	sig := sc.sig()
	rep := func(clause, detail string) *sim.Violation {
		return r.Report(&sim.Violation{Clause: clause, Signature: sig, Detail: detail + "\nscenario: " + strings.Join(sc.descr, "; ")})
	}
	// dry run first: changes nothing, reports the same day counts
	dry := sc.opts
	dry.DryRun = true
	wd.fs.Restart("dst")
	dsum, err, pp := runMerge(dry)
	if pp != nil {
		panic(pp)
	}
	if err != nil {
		if v := rep("dry-run-fails", err.Error()); v != nil {
			return v
		}
	} else {
		if h2 := wd.fs.TreeHash("dstdisk"); h2 != dstHash {
			if v := rep("dry-run-changes-destination", fmt.Sprintf("destination tree before:\n%s\nafter:\n%s", "(hash "+dstHash+")", strings.Join(wd.fs.Walk("dstdisk"), "\n"))); v != nil {
				return v
			}
		}
		if dsum.DaysCopied != wantSum.DaysCopied || dsum.DaysRebuilt != wantSum.DaysRebuilt || dsum.DaysSkipped != wantSum.DaysSkipped || dsum.InterfacesProcessed != wantSum.InterfacesProcessed {
			if v := rep("dry-run-counts-differ", fmt.Sprintf("dry run reports %s, the documented plan is %s", sumStr(dsum), sumStr(wantSum))); v != nil {
				return v
			}
		}
	}
	// the real merge
	wd.fs.Restart("dst")
	sum, err, pp := runMerge(sc.opts)
	if pp != nil {
		panic(pp)
	}
	r.Steps += wd.fs.Proc("dst").Ops + wd.fs.Proc("src").Ops
	if err != nil {
		return rep("merge-fails", err.Error())
	}
	r.Event("merge: %s", sumStr(sum))
	if sum != wantSum {
		if v := rep("counts-differ", fmt.Sprintf("merge reports %s, the documented plan is %s", sumStr(sum), sumStr(wantSum))); v != nil {
			return v
		}
	}
	if len(wd.fs.ROViolations) > 0 || wd.fs.TreeHash("srcdisk") != srcHash {
		if v := rep("source-modified", fmt.Sprintf("mutating operations on the source: %v", wd.fs.ROViolations)); v != nil {
			return v
		}
	}
	wd.fs.Restart("dr")
	if _, cl, det := wd.dst.CheckStore(want, nil, ""); cl != "" {
		if v := rep("destination-"+cl, det); v != nil {
			return v
		}
		return nil
	}
	if v := wd.dst.CheckServices(want, "", true, func(cl, det string) *sim.Violation { return rep("destination-"+cl, det) }); v != nil {
		return v
	}
	// merging the same source again changes nothing further
	wd.fs.Restart("dst")
	_, err, pp = runMerge(sc.opts)
	if pp != nil {
		panic(pp)
	}
	if err != nil {
		return rep("second-merge-fails", err.Error())
	}
	wd.fs.Restart("dr")
	if _, cl, det := wd.dst.CheckStore(want, nil, ""); cl != "" {
		return rep("second-merge-changes-"+cl, det)
	}
	return nil
}
