package merge

import "verif/h"

var realMerge = []string{"goDB.MergeDatabases (plan, stage, rebuild, commit)", "gpfile.GPDir/GPFile", "goDB.DBWriter.WriteBulk (database construction)", "engine.QueryRunner, DBWorkManager.ReadMetadata, info.GetInterfaces (destination checks)", "encoders (cgo)"}
var stubMerge = []string{"disks (verif/simfs): read-only source mount, destination mount"}

// Props are the properties served by the merge-sim engine.
var Props = []*h.Prop{
	{ID: "C24", Run: c24, Bubble: true,
		Rule:        "one evaluation = one generated pair of databases (1-3 interfaces x 1-3 days, each day missing / clearly partial / clearly complete on either side, colliding block stamps with different payloads) with drawn options (overwrite, interface subset, tolerance), executed as dry run, merge and repeated merge; non-trivial = at least one day present in the source; distinct = distinct event-log hash",
		Real:        realMerge,
		Stub:        stubMerge,
		Assumptions: []string{"days are generated clearly complete (a block every 5 minutes, or blocks five minutes apart at both ends of the day with holes of hours in between) or clearly partial (<= 8 blocks: none within two hours of either end of the day, or covered from midnight but ending at least four hours early, or reaching midnight but starting at least two hours late, unevenly spaced), so the oracle does not mirror the tolerance arithmetic of the completeness heuristic", "fault-free configuration (kills are C25)"}},
	{ID: "C25", Run: c25, Bubble: true,
		Rule:        "one evaluation = one generated database pair whose merge is killed at every structural mutating operation (mkdir, create, rename, remove, chmod; capped at 120, thorough 600, renames and removes always kept) and at sampled data writes (half of them torn); after each distinct post-crash disk state: interface listing, any-query, per-day old-or-merged check through the real query engine, and a later uninterrupted merge; non-trivial = the merge performs at least one mutating operation; distinct = distinct event-log hash",
		Real:        realMerge,
		Stub:        stubMerge,
		Assumptions: []string{"crash model is process kill (completed system calls survive)", "data writes of large days are sampled, structural operations are enumerated"}},
}
