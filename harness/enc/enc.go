// Package enc is the stream-sim engine: the real compressor implementations of goProbe (cgo and
// pure-Go back ends compiled into one binary through the build-configuration seam of
// verif/rewrite) driven as stateful stream code: one long-lived instance receives a seeded
// history of Compress / Decompress calls whose scratch buffers have drawn length, capacity and
// dirty contents and whose destination writers and source readers inject faults.
package enc

import (
	"bytes"
	"errors"
	"fmt"
	"io"

	"github.com/els0r/goProbe/v4/pkg/goDB/encoder"
	"github.com/els0r/goProbe/v4/pkg/goDB/encoder/encoders"
	"github.com/els0r/goProbe/v4/pkg/goDB/encoder/lz4"
	"github.com/els0r/goProbe/v4/pkg/goDB/encoder/null"
	"github.com/els0r/goProbe/v4/pkg/goDB/encoder/zstd"

	"verif/h"
	"verif/sim"
)

type impl struct {
	name     string
	mk       func() encoder.Encoder
	maxLevel int
	typ      encoders.Type
}

var impls = []impl{
	{"lz4-cgo", func() encoder.Encoder { return lz4.New() }, lz4.MaxCompressionLevel, encoders.EncoderTypeLZ4},
	{"zstd-cgo", func() encoder.Encoder { return zstd.New() }, zstd.MaxCompressionLevel, encoders.EncoderTypeZSTD},
	{"lz4-native", func() encoder.Encoder { return lz4.NewNative() }, lz4.MaxCompressionLevel, encoders.EncoderTypeLZ4},
	{"zstd-native", func() encoder.Encoder { return zstd.NewNative() }, zstd.MaxCompressionLevel, encoders.EncoderTypeZSTD},
	{"null", func() encoder.Encoder { return null.New() }, 0, encoders.EncoderTypeNull},
}

var errInjected = errors.New("injected stream error")

// faultWriter accepts failAfter bytes and then fails (failAfter < 0: never fails).
type faultWriter struct {
	buf       bytes.Buffer
	failAfter int
	calls     int
	failed    bool
}

func (w *faultWriter) Write(p []byte) (int, error) {
	w.calls++
	if w.failAfter < 0 || w.buf.Len()+len(p) <= w.failAfter {
		return w.buf.Write(p)
	}
	k := w.failAfter - w.buf.Len()
	if k < 0 {
		k = 0
	}
	w.buf.Write(p[:k])
	w.failed = true
	return k, errInjected
}

// faultReader serves data; kind 0 fault-free (one full read per call), 1 short read without
// error, 2 error before the first byte, 3 EOF in the middle (bytes + io.EOF), 4 unexpected EOF
// reported with zero bytes.
type faultReader struct {
	data []byte
	pos  int
	kind int
	cut  int
	done bool // the fault has fired
}

func (r *faultReader) Read(p []byte) (int, error) {
	rest := r.data[r.pos:]
	kind := r.kind
	if r.done {
		kind = 0
	}
	switch kind {
	case 1:
		if len(rest) > r.cut {
			rest = rest[:r.cut]
		}
		n := copy(p, rest)
		r.pos += n
		r.done = true
		return n, nil
	case 2:
		return 0, errInjected
	case 3:
		if len(rest) > r.cut {
			rest = rest[:r.cut]
		}
		n := copy(p, rest)
		r.pos += n
		return n, io.EOF
	case 4:
		return 0, io.ErrUnexpectedEOF
	}
	n := copy(p, rest)
	r.pos += n
	if n == 0 && len(p) > 0 {
		return 0, io.EOF
	}
	return n, nil
}

var sizes = []int{1, 2, 7, 12, 13, 14, 15, 16, 17, 64, 100, 1000, 4095, 4096, 4097, 8191, 8192, 8193, 9000, 16384, 20000, 70000, 131072, 300000, 600000}

var kindNames = []string{"zeros", "text", "incompressible", "mixed", "sparse"}

// genData draws an input; the tape holds only size, kind and a sub-seed.
func genData(t *sim.Tape, allowEmpty bool) ([]byte, string) {
	var n int
	switch t.Draw(4) {
	case 0:
		n = 1 + t.Draw(300)
	case 1:
		n = 1 + t.Draw(20000)
	default:
		n = sim.Pick(t, sizes)
	}
	if allowEmpty && t.Chance(1, 24) {
		n = 0
	}
	kind := t.Draw(len(kindNames))
	var b []byte
	switch kind {
	case 3:
		b = append(t.Bytes(n/2, 2), t.Bytes(n-n/2, 1)...)
	case 4:
		b = t.Bytes(n, 0)
		rnd := t.Bytes(n, 2)
		for i := 0; i < n; i += 1 + int(rnd[i])%61 {
			b[i] = rnd[i]
		}
	default:
		b = t.Bytes(n, kind)
	}
	return b, fmt.Sprintf("%s:%d", kindNames[kind], n)
}

// scratchClass is the part of a scratch buffer's shape that goes into violation signatures.
func scratchClass(b []byte) string {
	if len(b) == 0 {
		return "scratch buffer of length 0"
	}
	return "non-empty scratch buffer"
}

// scratch shapes: what callers hand to Compress as buf.
var scratchNames = []string{"nil", "len 0 with capacity", "len 8192 cap 16384 (what gpfile passes)", "non-empty, shorter than the input", "non-empty, longer than any compressed form", "reused from the previous call", "capacity just above the input length"}

// genScratch draws a scratch buffer with dirty contents.
func genScratch(t *sim.Tape, prev []byte, dataLen int) ([]byte, int) {
	k := t.Draw(len(scratchNames))
	dirty := func(l, c int) []byte {
		b := make([]byte, c)
		for i := range b {
			b[i] = byte(0xA5 ^ i)
		}
		return b[:l]
	}
	switch k {
	case 0:
		return nil, k
	case 1:
		return dirty(0, 1+t.Draw(3*dataLen+64)), k
	case 2:
		return dirty(8192, 16384), k
	case 6:
		// larger than the input, smaller than the worst-case compressed size
		c := dataLen + 1 + t.Draw(24)
		return dirty(t.Draw(2)*t.Draw(c+1), c), k
	case 3:
		l := 1 + t.Draw(dataLen+1)
		return dirty(l, l+t.Draw(2*dataLen+64)), k
	case 4:
		l := 2*dataLen + 1024 + t.Draw(4096)
		return dirty(l, l+t.Draw(64)), k
	default:
		if prev == nil {
			return dirty(8192, 16384), 2
		}
		return prev, k
	}
}

type frame struct {
	data    []byte
	emitted []byte
	note    string
	by      string // implementation that wrote it
}

var realEnc = []string{"encoder.Encoder implementations: lz4 (liblz4 via cgo), lz4 (pierrec/lz4, pure Go), zstd (libzstd via cgo), zstd (klauspost/compress, pure Go), null", "encoder.New factory"}
var stubEnc = []string{"destination writers and source readers (fault-injecting in-memory streams)", "the build configuration: the pure-Go back ends are compiled into the cgo binary under other type names (verif/rewrite encSeam) instead of being selected by build tags"}

// Props are the properties served by the stream-sim engine.
var Props = []*h.Prop{
	{ID: "C02", Run: c02enc,
		Rule:        "encoder-level variant of C02 (the store-level variant runs in store-sim): one evaluation = 3-10 inputs (0 B-600 KiB, five content kinds) compressed by the cgo and by the pure-Go back end of one method (lz4 or zstd) at a drawn level with the storage layer's scratch buffer shape, each frame decoded by a fresh instance of the *other* back end; non-trivial = at least one frame crossed between the builds; distinct = distinct event-log hash",
		Real:        realEnc,
		Stub:        stubEnc,
		Assumptions: []string{"the input space is sampled, not enumerated", "compressed frames of the two back ends may differ; what must agree is what they decode to"}},
	{ID: "C07", Run: c07,
		Rule:        "one evaluation = one long-lived compressor instance (method, back end and level drawn) receiving a seeded history of 4-16 Compress / Decompress / SetLevel calls: inputs of 0 B-600 KiB (zeros, text, incompressible, mixed, sparse; sizes biased to 4 KiB / 8 KiB), scratch buffers of drawn length and capacity with dirty contents (nil, empty with capacity, the storage layer's len-8192 cap-16384 buffer, shorter than the input, longer than any output, reused, capacity just above the input length), destination writers that fail after j bytes, source readers with short reads / errors / EOF mid-block; every fault-free Compress is decoded by the same instance, a long-lived second instance or a fresh one; non-trivial = at least one round trip with a non-empty dirty scratch buffer or a fired stream fault; distinct = distinct event-log hash",
		Real:        realEnc,
		Stub:        stubEnc,
		Assumptions: []string{"the input space is sampled, not enumerated", "a source reader that returns fewer bytes than requested makes Decompress fail (the code reads once); that is accepted as an error, wrong data with a nil error is not"}},
}

func c07(r *sim.R) *sim.Violation {
	t := r.T
	im := impls[t.Draw(len(impls))]
	inst := im.mk()
	peer := im.mk()
	level := -1
	if im.maxLevel > 0 && t.Bool() {
		level = 1 + t.Draw(im.maxLevel)
		inst.SetLevel(level)
	}
	r.Event("impl=%s level=%d", im.name, level)
	if inst.Type() != im.typ {
		return &sim.Violation{Clause: "wrong-type", Signature: im.name, Detail: fmt.Sprintf("Type() = %v, want %v", inst.Type(), im.typ)}
	}
	defer func() {
		// Close is part of the contract; errors of Close are not a C07 matter
		_ = inst.Close()
		_ = peer.Close()
	}()
	var frames []frame
	var prevScratch []byte
	nOps := 4 + t.Draw(13)
	faultedBefore := false
	for op := 0; op < nOps; op++ {
		switch k := t.Draw(8); {
		case k <= 4 || len(frames) == 0: // Compress
			data, note := genData(t, true)
			scratch, sk := genScratch(t, prevScratch, len(data))
			w := &faultWriter{failAfter: -1}
			if t.Chance(1, 5) {
				w.failAfter = t.Draw(64)
				if t.Bool() {
					w.failAfter = t.Draw(len(data) + 1)
				}
			}
			orig := append([]byte(nil), data...)
			r.Event("%d: compress %s scratch=%q len=%d cap=%d failAfter=%d", op, note, scratchNames[sk], len(scratch), cap(scratch), w.failAfter)
			n, err := inst.Compress(data, scratch, w)
			prevScratch = scratch
			sig := im.name + ", " + scratchClass(scratch)
			if len(data) == 0 {
				sig += ", empty input"
			}
			if !bytes.Equal(orig, data) {
				return &sim.Violation{Clause: "input-modified", Signature: sig, Detail: fmt.Sprintf("Compress(%s) modified its input", note)}
			}
			emitted := append([]byte(nil), w.buf.Bytes()...)
			r.Event("   -> n=%d emitted=%d failed=%v", n, len(emitted), err != nil)
			if n != len(emitted) {
				return &sim.Violation{Clause: "reported-count-differs", Signature: sig, Detail: fmt.Sprintf("Compress(%s) returned n=%d err=%v but %d bytes reached the writer", note, n, err, len(emitted))}
			}
			if w.failed && err == nil {
				return &sim.Violation{Clause: "write-error-swallowed", Signature: sig, Detail: fmt.Sprintf("the writer failed after %d bytes but Compress(%s) returned n=%d, nil", w.failAfter, note, n)}
			}
			if err != nil {
				if wFailed(w) {
					r.Fault("writer error after j bytes")
					faultedBefore = true
					continue
				}
				if len(data) == 0 {
					// an empty input may be refused, it must not be stored wrongly
					r.Probe("empty_input_refused")
					continue
				}
				return &sim.Violation{Clause: "compress-fails", Signature: sig, Detail: fmt.Sprintf("fault-free Compress(%s, scratch len=%d cap=%d) failed: %v", note, len(scratch), cap(scratch), err)}
			}
			if len(scratch) > 0 {
				r.Nontriv = true
				r.Probe("dirty_nonempty_scratch")
			}
			if faultedBefore {
				r.Probe("compress_after_failed_call")
			}
			fr := frame{data: orig, emitted: emitted, note: note, by: im.name}
			frames = append(frames, fr)
			if t.Draw(3) > 0 {
				if v := decode(r, im, inst, peer, fr, sig, op); v != nil {
					return v
				}
			}
		case k == 5 || k == 6: // decode an older frame (history)
			fr := frames[t.Draw(len(frames))]
			sig := im.name + ", older frame"
			if v := decode(r, im, inst, peer, fr, sig, op); v != nil {
				return v
			}
		default:
			if im.maxLevel > 0 {
				level = 1 + t.Draw(im.maxLevel)
				r.Event("%d: setlevel %d", op, level)
				inst.SetLevel(level)
			}
		}
	}
	// everything written must still decode at the end (by a fresh instance)
	for i, fr := range frames {
		fresh := im.mk()
		out := make([]byte, len(fr.data))
		in := make([]byte, len(fr.emitted))
		if len(fr.emitted) == 0 {
			continue
		}
		n, err := fresh.Decompress(in, out, &faultReader{data: fr.emitted})
		_ = fresh.Close()
		if err != nil || n != len(fr.data) || !bytes.Equal(out[:len(fr.data)], fr.data) {
			return &sim.Violation{Clause: "roundtrip-differs", Signature: im.name + ", fresh instance at the end",
				Detail: fmt.Sprintf("frame %d (%s, %d bytes emitted): Decompress returned n=%d err=%v%s", i, fr.note, len(fr.emitted), n, err, diffAt(out, fr.data))}
		}
	}
	return nil
}

func wFailed(w *faultWriter) bool { return w.failed }

func decode(r *sim.R, im impl, inst, peer encoder.Encoder, fr frame, sig string, op int) *sim.Violation {
	t := r.T
	dec := inst
	who := "same instance"
	switch t.Draw(3) {
	case 1:
		dec, who = peer, "second long-lived instance"
	case 2:
		dec, who = im.mk(), "fresh instance"
		defer dec.Close()
	}
	if len(fr.emitted) == 0 {
		// nothing was emitted for this input: the only legal case is an empty input
		if len(fr.data) != 0 {
			return &sim.Violation{Clause: "nothing-emitted", Signature: sig, Detail: fmt.Sprintf("Compress(%s) emitted no bytes and no error", fr.note)}
		}
		return nil
	}
	// dirty in/out buffers; in is exactly the emitted length (what the storage layer records as Len)
	inBack := make([]byte, len(fr.emitted)+t.Draw(32))
	for i := range inBack {
		inBack[i] = 0x5A
	}
	in := inBack[:len(fr.emitted)]
	outBack := make([]byte, len(fr.data)+t.Draw(32))
	for i := range outBack {
		outBack[i] = 0xC3
	}
	out := outBack[:len(fr.data)]
	src := &faultReader{data: fr.emitted}
	if t.Chance(1, 5) {
		src.kind = 1 + t.Draw(4)
		src.cut = t.Draw(len(fr.emitted))
	}
	r.Event("%d: decompress %s by %s reader=%d cut=%d", op, fr.note, who, src.kind, src.cut)
	n, err := dec.Decompress(in, out, src)
	ok := err == nil && n == len(fr.data) && bytes.Equal(out, fr.data)
	if src.kind != 0 {
		r.Fault(fmt.Sprintf("reader fault kind %d", src.kind))
		r.Nontriv = true
		if err == nil && !ok {
			return &sim.Violation{Clause: "wrong-data-after-read-fault", Signature: sig, Detail: fmt.Sprintf("reader fault kind %d (cut %d of %d): Decompress returned n=%d, nil but the output differs%s", src.kind, src.cut, len(fr.emitted), n, diffAt(out, fr.data))}
		}
		if err != nil {
			// the instance must not be poisoned: the same frame decodes afterwards
			r.Probe("decode_after_failed_decode")
			for i := range out {
				out[i] = 0xC3
			}
			n, err = dec.Decompress(in, out, &faultReader{data: fr.emitted})
			if err != nil || n != len(fr.data) || !bytes.Equal(out, fr.data) {
				return &sim.Violation{Clause: "instance-poisoned", Signature: sig, Detail: fmt.Sprintf("after a failed Decompress the next fault-free one returned n=%d err=%v%s", n, err, diffAt(out, fr.data))}
			}
		}
		return nil
	}
	if !ok {
		return &sim.Violation{Clause: "roundtrip-differs", Signature: sig, Detail: fmt.Sprintf("%s, %d bytes emitted, decoded by "+who+": Decompress returned n=%d err=%v%s", fr.note, len(fr.emitted), n, err, diffAt(out, fr.data))}
	}
	// nothing beyond len(out) may be written
	for i := len(fr.data); i < len(outBack); i++ {
		if outBack[i] != 0xC3 {
			return &sim.Violation{Clause: "writes-beyond-output", Signature: sig, Detail: fmt.Sprintf("Decompress wrote beyond len(out)=%d at offset %d", len(fr.data), i)}
		}
	}
	return nil
}

func diffAt(got, want []byte) string {
	if len(got) != len(want) {
		return fmt.Sprintf(" (output length %d, want %d)", len(got), len(want))
	}
	for i := range got {
		if got[i] != want[i] {
			return fmt.Sprintf(" (first difference at offset %d of %d)", i, len(want))
		}
	}
	return ""
}

// c02enc: what one build's compressor writes, the other build's decompressor restores.
func c02enc(r *sim.R) *sim.Violation {
	t := r.T
	pair := [][2]impl{{impls[0], impls[2]}, {impls[1], impls[3]}}[t.Draw(2)] // {cgo, native} of lz4 / zstd
	level := -1
	if t.Bool() {
		level = 1 + t.Draw(pair[0].maxLevel)
	}
	r.Event("method=%s level=%d", pair[0].typ, level)
	var enc [2]encoder.Encoder
	for i := range enc {
		enc[i] = pair[i].mk()
		if level > 0 {
			enc[i].SetLevel(level)
		}
		defer enc[i].Close()
	}
	n := 3 + t.Draw(8)
	for k := 0; k < n; k++ {
		data, note := genData(t, false)
		for w := 0; w < 2; w++ {
			scratch, sk := genScratch(t, nil, len(data))
			wr := &faultWriter{failAfter: -1}
			nw, err := enc[w].Compress(data, scratch, wr)
			r.Event("%d: %s compressed by %s (scratch %s): n=%d failed=%v", k, note, pair[w].name, scratchNames[sk], nw, err != nil)
			sig := fmt.Sprintf("written by %s, read by %s", pair[w].name, pair[1-w].name)
			if err != nil || nw != wr.buf.Len() {
				return &sim.Violation{Clause: "compress-fails", Signature: "written by " + pair[w].name, Detail: fmt.Sprintf("Compress(%s) by %s: n=%d err=%v, %d bytes emitted", note, pair[w].name, nw, err, wr.buf.Len())}
			}
			emitted := wr.buf.Bytes()
			if len(emitted) == 0 {
				return &sim.Violation{Clause: "nothing-emitted", Signature: "written by " + pair[w].name, Detail: fmt.Sprintf("Compress(%s) by %s emitted no bytes and no error", note, pair[w].name)}
			}
			other := pair[1-w].mk()
			out := make([]byte, len(data))
			in := make([]byte, len(emitted))
			nd, err := other.Decompress(in, out, &faultReader{data: emitted})
			_ = other.Close()
			r.Nontriv = true
			if err != nil || nd != len(data) || !bytes.Equal(out, data) {
				return &sim.Violation{Clause: "other-build-cannot-read", Signature: sig,
					Detail: fmt.Sprintf("%s (level %d) compressed by %s to %d bytes; %s returned n=%d err=%v%s", note, level, pair[w].name, len(emitted), pair[1-w].name, nd, err, diffAt(out, data))}
			}
		}
	}
	return nil
}
