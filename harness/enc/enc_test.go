package enc

import (
	"testing"

	"verif/h"
)

func TestSim(t *testing.T) { h.Main(t, Props) }
