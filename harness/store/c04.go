package store

import (
	"bytes"
	"fmt"
	"strings"
	"time"

	"verif/dbcheck"

	"verif/h"
	"verif/model"
	"verif/sim"
	"verif/simfs"
)

// crashPoint is one enumerated crash position inside a write-out.
type crashPoint struct {
	mutIx int // kill before the mutIx-th mutating operation of the write-out ...
	torn  int // ... or, when >0 and that op is a write, after its first torn bytes
}

func (c crashPoint) String() string {
	if c.torn > 0 {
		return fmt.Sprintf("kill inside mutating op #%d after %d bytes", c.mutIx, c.torn)
	}
	return fmt.Sprintf("kill before mutating op #%d", c.mutIx)
}

func killPlan(cp crashPoint) simfs.Plan {
	return func(op *simfs.Op) simfs.Action {
		if op.MutIx != cp.mutIx {
			return simfs.Action{}
		}
		if cp.torn > 0 && op.Kind == simfs.OpWrite {
			return simfs.Action{Kind: simfs.TornKill, Bytes: cp.torn}
		}
		return simfs.Action{Kind: simfs.Kill}
	}
}

// opSig is a canonical description of an operation used in violation signatures (no temp
// names, no timestamps).
func opSig(op string) string { return canonPath(op) }

// C04: crash at every mutating-operation boundary (and torn writes) of every write-out of a
// generated history.
func c04(r *sim.R) *sim.Violation {
	thorough := h.Thorough()
	wd := newWorld(r)
	defer simfs.Install(wd.fs)()
	nWO := 2 + r.T.Draw(3)
	if thorough {
		nWO = 2 + r.T.Draw(5)
	}
	hist := genHistory(r.T, nWO, 6)
	followFlows := model.GenFlows(r.T, 4, true)
	secondCrash := thorough && r.T.Draw(3) == 0
	m := model.NewStore()
	r.Nontriv = true
	for i := range hist {
		wo := &hist[i]
		r.Event("%d: %s", i, wo)
		snap := wd.fs.Snapshot()
		// 1. uninterrupted execution on the snapshot: learn the operations of this write-out
		wp := wd.fs.Restart("w")
		var ops []simfs.Op
		wp.Plan = func(op *simfs.Op) simfs.Action { ops = append(ops, *op); return simfs.Action{} }
		var err error
		if p := simfs.RunProc(func() { err = wo.exec() }); p != nil {
			panic(p)
		}
		if err != nil {
			return r.Report(&sim.Violation{Clause: "writeout-fails", Signature: "fault-free write-out returns an error", Detail: fmt.Sprintf("%s: %v", wo, err)})
		}
		after := m.Clone()
		after.Add(wo.iface, wo.block())
		if seen, cl, det := wd.CheckStore(after, nil, ""); cl != "" {
			if v := r.Report(&sim.Violation{Clause: cl, Signature: "after uninterrupted write-out", Detail: fmt.Sprintf("after %s: %s", wo, det)}); v != nil {
				return v
			}
		} else if v := wd.CheckServices(seen, "", true, func(cl, det string) *sim.Violation {
			return r.Report(&sim.Violation{Clause: cl, Signature: "after uninterrupted write-out", Detail: fmt.Sprintf("after %s: %s", wo, det)})
		}); v != nil {
			return v
		}
		done := wd.fs.Snapshot()
		// metadata and directory name of the in-flight day before this write-out (for state classes)
		wd.fs.Restore(snap)
		oldName, oldMeta := "", []byte(nil)
		if names := dbcheck.DayDirNames(wd.fs, tree, rel, wo.iface, model.DayOf(wo.ts)); len(names) > 0 {
			oldName = names[0]
			oldMeta, _ = wd.fs.ReadRaw(tree, dayPath(wo.iface, wo.ts, oldName)+"/.blockmeta")
		}
		// 2. enumerate crash points
		var cps []crashPoint
		var mutOps []simfs.Op
		for _, op := range ops {
			if op.MutIx < 0 {
				continue
			}
			mutOps = append(mutOps, op)
			cps = append(cps, crashPoint{mutIx: op.MutIx})
			if op.Kind == simfs.OpWrite && op.N > 1 {
				lens := []int{1, op.N / 2, op.N - 1}
				if thorough {
					for j := 2; j < op.N-1 && j <= 48; j++ {
						lens = append(lens, j)
					}
					lens = append(lens, 1+r.T.Draw(op.N-1))
				}
				seenLen := map[int]bool{}
				for _, l := range lens {
					if l >= 1 && l < op.N && !seenLen[l] {
						seenLen[l] = true
						cps = append(cps, crashPoint{mutIx: op.MutIx, torn: l})
					}
				}
			}
		}
		states := map[string]bool{}
		for _, cp := range cps {
			wd.fs.Restore(snap)
			wp := wd.fs.Restart("w")
			wp.Plan = killPlan(cp)
			var werr error
			returned := false
			if p := simfs.RunProc(func() { werr = wo.exec(); returned = true }); p != nil {
				panic(p)
			}
			if returned || !wp.Killed {
				h.Fatalf("crash point %v of %s did not fire (err=%v)", cp, wo, werr)
			}
			r.Steps += wp.Ops
			where := fmt.Sprintf("%s %s", mutOps[cp.mutIx].Kind, opSig(mutOps[cp.mutIx].Path))
			if mutOps[cp.mutIx].Path2 != "" {
				where += " -> " + opSig(mutOps[cp.mutIx].Path2)
			}
			sig := "killed write-out, " + wd.dayState(wo, oldMeta, oldName)
			st := wd.fs.TreeHash(tree)
			if states[st] {
				r.Probe("duplicate_post_crash_state")
				continue
			}
			states[st] = true
			r.Probe("distinct_post_crash_state")
			r.Event("  crash %v (%s) -> state %s", cp, where, st[:8])
			if v := wd.afterCrash(r, m, wo, sig, followFlows, secondCrash && cp.torn == 0); v != nil {
				v.Detail = fmt.Sprintf("history step %d: %s; %v (%s)\n%s", i, wo, cp, where, v.Detail)
				return v
			}
		}
		wd.fs.Restore(done)
		m = after
	}
	return nil
}

func dayPath(iface string, ts int64, dirName string) string {
	t := time.Unix(model.DayOf(ts), 0).UTC()
	return fmt.Sprintf("%s/%s/%d/%02d/%s", rel, iface, t.Year(), int(t.Month()), dirName)
}

// dayState classifies the on-disk state of the day a killed write-out was writing to. The class
// (not the position of the kill) is the signature of a C04 violation.
func (wd *world) dayState(wo *writeout, oldMeta []byte, oldName string) string {
	names := dbcheck.DayDirNames(wd.fs, tree, rel, wo.iface, model.DayOf(wo.ts))
	kind := "day already had committed blocks"
	if oldName == "" {
		kind = "first write-out of the day"
	}
	if len(names) == 0 {
		return kind + ", no day directory yet"
	}
	if len(names) > 1 {
		return kind + ", several day directories"
	}
	meta, ok := wd.fs.ReadRaw(tree, dayPath(wo.iface, wo.ts, names[0])+"/.blockmeta")
	switch {
	case !ok:
		return kind + ", day directory without metadata file"
	case bytes.Equal(meta, oldMeta):
		return kind + ", old metadata in place"
	case names[0] == oldName && strings.Contains(oldName, "_"):
		return kind + ", new metadata in place, directory name still carries the old summary"
	default:
		return kind + ", new metadata in place, directory name current"
	}
}

// afterCrash checks the post-crash obligations of C04 on the current disk state.
func (wd *world) afterCrash(r *sim.R, m *model.Store, wo *writeout, sig string, followFlows []model.Flow, second bool) *sim.Violation {
	wd.fs.Restart("r")
	blk := wo.block()
	seen, cl, det := wd.CheckStore(m, &blk, wo.iface)
	if cl != "" {
		if v := r.Report(&sim.Violation{Clause: cl, Signature: sig, Detail: det}); v != nil {
			return v
		}
		if seen == nil {
			return nil // known finding that prevents further checking of this state
		}
	}
	if v := wd.CheckServices(seen, wo.iface, true, func(cl, det string) *sim.Violation {
		return r.Report(&sim.Violation{Clause: cl, Signature: sig, Detail: det})
	}); v != nil {
		return v
	}
	// subsequent write-outs to the same day must succeed and read back
	next := &writeout{iface: wo.iface, ts: wo.ts + 300, flows: followFlows, enc: wo.enc}
	if model.DayOf(next.ts) != model.DayOf(wo.ts) {
		next.ts = wo.ts + 1
	}
	wp := wd.fs.Restart("w")
	if second {
		// a second crash during the recovery write-out, then a third, uninterrupted one
		k := r.T.Draw(12)
		wp.Plan = killPlan(crashPoint{mutIx: k})
		simfs.RunProc(func() { _ = next.exec() })
		if wp.Killed {
			r.Probe("second_crash_fired")
			wd.fs.Restart("r")
			nb := next.block()
			seen2, cl, det := wd.CheckStore(seen, &nb, next.iface)
			if cl != "" {
				if v := r.Report(&sim.Violation{Clause: cl, Signature: sig + "; then second crash", Detail: det}); v != nil {
					return v
				}
				if seen2 == nil {
					return nil
				}
			}
			seen = seen2
			next.ts++
			if model.DayOf(next.ts) != model.DayOf(wo.ts) {
				return nil
			}
		} else {
			seen.Add(next.iface, next.block())
			next.ts++
			if model.DayOf(next.ts) != model.DayOf(wo.ts) {
				return nil
			}
		}
		wp = wd.fs.Restart("w")
	}
	var err error
	if p := simfs.RunProc(func() { err = next.exec() }); p != nil {
		panic(p)
	}
	if err != nil {
		return r.Report(&sim.Violation{Clause: "next-writeout-fails", Signature: sig, Detail: fmt.Sprintf("%s after the crash: %v", next, err)})
	}
	after := seen.Clone()
	after.Add(next.iface, next.block())
	wd.fs.Restart("r")
	seen2, cl, det := wd.CheckStore(after, nil, "")
	if cl != "" {
		return r.Report(&sim.Violation{Clause: "next-writeout-" + cl, Signature: sig, Detail: fmt.Sprintf("after %s following the crash: %s", next, det)})
	}
	return wd.CheckServices(seen2, "", false, func(cl, det string) *sim.Violation {
		return r.Report(&sim.Violation{Clause: "next-writeout-" + cl, Signature: sig, Detail: det})
	})
}
