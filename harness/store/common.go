// Package store is the store-sim engine: real gpfile/DBWriter/reader/listing/query code over the
// simulated disk, driven by generated histories of write sessions, restarts, kills and I/O errors.
package store

import (
	"context"
	"fmt"
	"sort"
	"strings"

	"github.com/els0r/goProbe/v4/pkg/capture/capturetypes"
	"github.com/els0r/goProbe/v4/pkg/goDB"
	"github.com/els0r/goProbe/v4/pkg/goDB/encoder/encoders"
	"github.com/els0r/goProbe/v4/pkg/types/hashmap"
	"github.com/els0r/telemetry/logging"

	"verif/dbcheck"
	"verif/model"
	"verif/sim"
	"verif/simfs"
)

const (
	wdb  = "/sim/w/db" // the writer process' view of the database
	rdb  = "/sim/r/db" // the reader / checker process' view of the same tree
	tree = "disk"
	rel  = "/db"
)

func init() {
	// goProbe logs through a global logger: silence it (warnings about skipped blocks etc.)
	_, _ = logging.Init(logging.LevelFromString("panic"), logging.EncodingPlain, logging.WithOutput(discard{}), logging.WithErrorOutput(discard{}))
}

type discard struct{}

func (discard) Write(p []byte) (int, error) { return len(p), nil }

// world is the simulated environment of one run.
type world struct {
	fs *simfs.FS
	r  *sim.R
	// emptyDayOK names an (iface/day) whose directory may exist without metadata and without being
	// part of the model (left behind by a rejected first session; C03 does not judge leftovers)
	emptyDayOK string
}

func newWorld(r *sim.R) *world {
	f := simfs.New()
	f.Mount("w", tree)
	f.Mount("r", tree)
	f.OnFault = func(kind string, op *simfs.Op) { r.Fault(kind) }
	w := &world{fs: f, r: r}
	// the database root exists before the first write-out (goProbe is started on an existing path)
	restore := simfs.Install(f)
	if err := simfs.MkdirAll(wdb, 0o755); err != nil {
		panic(simfs.HarnessError{Msg: err.Error()})
	}
	restore()
	return w
}

var encPool = []encoders.Type{encoders.EncoderTypeLZ4, encoders.EncoderTypeZSTD, encoders.EncoderTypeNull}

// writeout is one generated write-out (what writeout.GoDBHandler hands to DBWriter.Write).
type writeout struct {
	iface string
	ts    int64
	flows []model.Flow
	drops uint64
	enc   encoders.Type
	level int
	fm    *hashmap.AggFlowMap // built once; DBWriter.Write does not modify it
}

func (w writeout) String() string {
	return fmt.Sprintf("writeout iface=%s ts=%d flows=%d drops=%d enc=%s level=%d", w.iface, w.ts, len(w.flows), w.drops, w.enc, w.level)
}

func (w writeout) block() model.Block {
	b := model.FlowBlock(w.ts, w.flows, w.drops)
	b.Enc = w.enc.String()
	return b
}

// exec performs the write-out through the real DBWriter (as the writer process).
func (w *writeout) exec() error {
	if w.fm == nil {
		w.fm = model.ToAggFlowMap(w.flows)
	}
	dw := goDB.NewDBWriter(wdb, w.iface, w.enc)
	if w.level > 0 {
		dw.EncoderLevel(w.level)
	}
	return dw.Write(w.fm, capturetypes.CaptureStats{Dropped: w.drops}, w.ts)
}

// interesting start instants: mid-day, shortly before a day / month / year boundary (UTC).
var startPool = []int64{
	1700000100,         // 2023-11-14 22:15 UTC
	1700006100,         // shortly before midnight UTC of 2023-11-14 (23:55)
	1701388500 - 86400, // 2023-11-29 23:55
	1701388500,         // 2023-11-30 23:55 (month end)
	1704066900,         // 2023-12-31 23:55 (year end)
	86400*19000 + 10,   // start of a day
}

// genHistory draws a history of n write-outs with advancing timestamps.
func genHistory(t *sim.Tape, n int, maxFlows int) []writeout {
	ifaces := []string{"eth0", "eth1"}
	nIf := 1 + t.Draw(2)
	ts := sim.Pick(t, startPool)
	perIfaceTS := map[string]int64{}
	var out []writeout
	for i := 0; i < n; i++ {
		w := writeout{iface: ifaces[t.Draw(nIf)]}
		last := perIfaceTS[w.iface]
		if last == 0 {
			last = ts
		}
		switch t.Draw(6) {
		case 0, 1, 2, 3:
			last += 300
		case 4:
			last += int64(1 + t.Draw(3600))
		default:
			last += int64(86400 + t.Draw(86400)) // skip a day
		}
		perIfaceTS[w.iface] = last
		w.ts = last
		w.flows = model.GenFlows(t, maxFlows, true)
		if t.Draw(4) == 0 {
			w.drops = uint64(t.Draw(1000))
		}
		w.enc = sim.Pick(t, encPool)
		w.level = t.Draw(3)
		out = append(out, w)
	}
	return out
}

// visibleState reads the whole database back through the real reader (as the reader process) and
// compares it with the model. inflight (optional) is an un-acknowledged block that may or may not
// be visible in its day. It returns the store the reader sees when that is a legal state.
func (wd *world) checkStore(m *model.Store, inflight *model.Block, inflightIface string) (seen *model.Store, clause, detail string) {
	seen = m.Clone()
	dirs := dbcheck.AllDayDirs(wd.fs, tree, rel)
	// every day of the model must be present exactly once
	type key struct {
		iface string
		day   int64
	}
	want := map[key]bool{}
	for _, iface := range m.IfaceNames() {
		for _, d := range m.Days(iface) {
			want[key{iface, d}] = true
		}
	}
	var inflightKey key
	if inflight != nil {
		inflightKey = key{inflightIface, model.DayOf(inflight.TS)}
	}
	var keys []key
	for iface, days := range dirs {
		for d := range days {
			keys = append(keys, key{iface, d})
		}
	}
	for k := range want {
		if _, ok := dirs[k.iface][k.day]; !ok {
			keys = append(keys, k)
		}
	}
	sort.Slice(keys, func(i, j int) bool {
		if keys[i].iface != keys[j].iface {
			return keys[i].iface < keys[j].iface
		}
		return keys[i].day < keys[j].day
	})
	for _, k := range keys {
		names := dirs[k.iface][k.day]
		if len(names) == 0 {
			return nil, "day-missing", fmt.Sprintf("iface %s day %d: committed day directory is gone", k.iface, k.day)
		}
		if len(names) > 1 {
			return nil, "day-duplicated", fmt.Sprintf("iface %s day %d: several directories %v", k.iface, k.day, names)
		}
		wantDay := m.Ifaces[k.iface][k.day]
		isInflightDay := inflight != nil && k == inflightKey
		if wantDay == nil && !isInflightDay && wd.emptyDayOK == fmt.Sprintf("%s/%d", k.iface, k.day) {
			if _, ok := wd.fs.ReadRaw(tree, fmt.Sprintf("%s/.blockmeta", dayPath(k.iface, k.day, names[0]))); !ok {
				continue
			}
		}
		if wantDay == nil && !isInflightDay {
			return nil, "day-unexpected", fmt.Sprintf("iface %s day %d: directory %s holds a day that was never written", k.iface, k.day, names[0])
		}
		if wantDay == nil {
			wantDay = &model.Day{}
		}
		var first *dbcheck.DayContent
		for mode := 0; mode < 2; mode++ {
			got, err := dbcheck.ReadDay(rdb+"/"+k.iface, k.day, names[0], mode, mode)
			if err != nil {
				if isInflightDay && len(wantDay.Blocks) == 0 {
					// a day that holds no committed block yet may be unreadable as such; what
					// matters is that listings and queries cope with it (checked separately)
					wd.r.Probe("inflight_day_unreadable")
					first = nil
					break
				}
				return nil, "day-unreadable", fmt.Sprintf("iface %s day %d (%s): %v", k.iface, k.day, names[0], err)
			}
			if mode == 0 {
				first = got
			}
			diff := dbcheck.CompareDay(wantDay, got)
			if diff != "" && isInflightDay {
				with := &model.Day{Blocks: append(append([]model.Block(nil), wantDay.Blocks...), *inflight)}
				if d2 := dbcheck.CompareDay(with, got); d2 == "" {
					diff = ""
					if mode == 0 {
						seen.Add(k.iface, *inflight)
						wd.r.Probe("inflight_block_visible")
					}
				}
			}
			if diff != "" {
				return nil, "readback-differs", fmt.Sprintf("iface %s day %d (%s, reader mode %d): %s", k.iface, k.day, names[0], mode, diff)
			}
		}
		// the directory-name suffix is what listings use without opening the metadata; a stale one
		// shows up behaviourally in checkServices (listing-disagrees), here it is only a probe
		if first != nil && first.HasSuffix && (first.SufTraffic != first.MetaTraffic || first.SufCounts != first.MetaCounts) {
			wd.r.Probe("dirname_summary_stale")
		}
	}
	return seen, "", ""
}

// expectedRows renders the rows a full query (all attributes, time and iface labels) must return.
func expectedRows(m *model.Store, first, last int64) []string {
	var out []string
	for _, iface := range m.IfaceNames() {
		for _, d := range m.Days(iface) {
			for _, b := range m.Ifaces[iface][d].Blocks {
				if b.TS < first || b.TS > last {
					continue
				}
				for _, f := range b.Flows {
					out = append(out, fmt.Sprintf("%d|%s|%s|%s|%d|%d|br=%d bs=%d pr=%d ps=%d", b.TS, iface, ipStr(f.Sip), ipStr(f.Dip), f.Dport, f.Proto, f.C.BR, f.C.BS, f.C.PR, f.C.PS))
				}
			}
		}
	}
	sort.Strings(out)
	return out
}

func diffRows(want, got []string) string {
	wm := map[string]int{}
	for _, s := range want {
		wm[s]++
	}
	var extra, missing []string
	for _, s := range got {
		if wm[s] > 0 {
			wm[s]--
		} else {
			extra = append(extra, s)
		}
	}
	for s, n := range wm {
		for i := 0; i < n; i++ {
			missing = append(missing, s)
		}
	}
	sort.Strings(missing)
	if len(extra) == 0 && len(missing) == 0 {
		return ""
	}
	clip := func(x []string) []string {
		if len(x) > 6 {
			return append(x[:6:6], fmt.Sprintf("… %d more", len(x)-6))
		}
		return x
	}
	return fmt.Sprintf("%d rows expected, %d returned\n missing: %s\n unexpected: %s", len(want), len(got), strings.Join(clip(missing), "\n          "), strings.Join(clip(extra), "\n          "))
}

// checkServices exercises interface listing, per-interface summaries and a full query as the
// reader process and compares them with the store the reader sees. Every failing clause is handed
// to report; a non-nil return of report stops the checking.
func (wd *world) checkServices(seen *model.Store, mayExtraIface string, withQuery bool, report func(clause, detail string) *sim.Violation) *sim.Violation {
	ifs, err := dbcheck.Interfaces(rdb)
	if err != nil {
		return report("interfaces-fail", err.Error())
	}
	wantIfs := seen.IfaceNames()
	got := map[string]bool{}
	for _, i := range ifs {
		got[i] = true
	}
	for _, i := range wantIfs {
		if !got[i] {
			if v := report("interfaces-disagree", fmt.Sprintf("interface %s has data but is not listed (%v)", i, ifs)); v != nil {
				return v
			}
		}
		delete(got, i)
	}
	for _, i := range sim.SortedKeys(got) {
		if i != mayExtraIface {
			if v := report("interfaces-disagree", fmt.Sprintf("listed interface %q holds no data (listed %v, with data %v)", i, ifs, wantIfs)); v != nil {
				return v
			}
		}
	}
	const lo, hi = int64(1), int64(4102444800)
	for _, iface := range ifs {
		md, err := dbcheck.Listing(rdb, iface, lo, hi)
		if err != nil {
			if v := report("listing-fails", fmt.Sprintf("summary of interface %s: %v", iface, err)); v != nil {
				return v
			}
			continue
		}
		var t model.Traffic
		var c model.Counters
		for _, d := range seen.Days(iface) {
			dt, dc := seen.Ifaces[iface][d].Totals()
			t.V4 += dt.V4
			t.V6 += dt.V6
			t.Drops += dt.Drops
			c.Add(dc)
		}
		gt := model.Traffic{V4: md.Traffic.NumV4Entries, V6: md.Traffic.NumV6Entries, Drops: md.Traffic.NumDrops}
		gc := model.Counters{BR: md.Counts.BytesRcvd, BS: md.Counts.BytesSent, PR: md.Counts.PacketsRcvd, PS: md.Counts.PacketsSent}
		if gt != t || gc != c {
			if v := report("listing-disagrees", fmt.Sprintf("summary of interface %s: %+v %+v, stored blocks sum to %+v %+v", iface, gt, gc, t, c)); v != nil {
				return v
			}
		}
	}
	if withQuery && len(ifs) > 0 {
		res, err := dbcheck.Query(context.Background(), rdb, dbcheck.FullArgs("any", lo, hi))
		if err != nil {
			return report("query-fails", err.Error())
		}
		if d := diffRows(expectedRows(seen, lo, hi), dbcheck.RowsCanon(res.Rows)); d != "" {
			return report("query-disagrees", d)
		}
	}
	return nil
}

func ipStr(b []byte) string { return model.IPString(b) }
