// Package store is the store-sim engine: real gpfile/DBWriter/reader/listing/query code over the
// simulated disk, driven by generated histories of write sessions, restarts, kills and I/O errors.
package store

import (
	"fmt"

	"github.com/els0r/goProbe/v4/pkg/capture/capturetypes"
	"github.com/els0r/goProbe/v4/pkg/goDB"
	"github.com/els0r/goProbe/v4/pkg/goDB/encoder/encoders"
	"github.com/els0r/goProbe/v4/pkg/types/hashmap"
	"github.com/els0r/telemetry/logging"

	"verif/dbcheck"
	"verif/model"
	"verif/sim"
	"verif/simfs"
)

const (
	wdb  = "/sim/w/db" // the writer process' view of the database
	rdb  = "/sim/r/db" // the reader / checker process' view of the same tree
	tree = "disk"
	rel  = "/db"
)

func init() {
	// goProbe logs through a global logger: silence it (warnings about skipped blocks etc.)
	_, _ = logging.Init(logging.LevelFromString("panic"), logging.EncodingPlain, logging.WithOutput(discard{}), logging.WithErrorOutput(discard{}))
}

type discard struct{}

func (discard) Write(p []byte) (int, error) { return len(p), nil }

// world is the simulated environment of one run.
type world struct {
	*dbcheck.View
	fs *simfs.FS
	r  *sim.R
}

func newWorld(r *sim.R) *world {
	f := simfs.New()
	f.Mount("w", tree)
	f.Mount("r", tree)
	f.OnFault = func(kind string, op *simfs.Op) { r.Fault(kind) }
	w := &world{fs: f, r: r, View: &dbcheck.View{FS: f, R: r, Tree: tree, Rel: rel, Path: rdb}}
	// the database root exists before the first write-out (goProbe is started on an existing path)
	restore := simfs.Install(f)
	if err := simfs.MkdirAll(wdb, 0o755); err != nil {
		panic(simfs.HarnessError{Msg: err.Error()})
	}
	restore()
	return w
}

var encPool = []encoders.Type{encoders.EncoderTypeLZ4, encoders.EncoderTypeZSTD, encoders.EncoderTypeNull}

// writeout is one generated write-out (what writeout.GoDBHandler hands to DBWriter.Write).
type writeout struct {
	iface string
	ts    int64
	flows []model.Flow
	drops uint64
	enc   encoders.Type
	level int
	fm    *hashmap.AggFlowMap // built once; DBWriter.Write does not modify it
}

func (w writeout) String() string {
	return fmt.Sprintf("writeout iface=%s ts=%d flows=%d drops=%d enc=%s level=%d", w.iface, w.ts, len(w.flows), w.drops, w.enc, w.level)
}

func (w writeout) block() model.Block {
	b := model.FlowBlock(w.ts, w.flows, w.drops)
	b.Enc = w.enc.String()
	return b
}

// exec performs the write-out through the real DBWriter (as the writer process).
func (w *writeout) exec() error {
	if w.fm == nil {
		w.fm = model.ToAggFlowMap(w.flows)
	}
	dw := goDB.NewDBWriter(wdb, w.iface, w.enc)
	if w.level > 0 {
		dw.EncoderLevel(w.level)
	}
	return dw.Write(w.fm, capturetypes.CaptureStats{Dropped: w.drops}, w.ts)
}

// interesting start instants: mid-day, shortly before a day / month / year boundary (UTC).
var startPool = []int64{
	1700000100,         // 2023-11-14 22:15 UTC
	1700006100,         // shortly before midnight UTC of 2023-11-14 (23:55)
	1701388500 - 86400, // 2023-11-29 23:55
	1701388500,         // 2023-11-30 23:55 (month end)
	1704066900,         // 2023-12-31 23:55 (year end)
	86400*19000 + 10,   // start of a day
}

// genHistory draws a history of n write-outs with advancing timestamps.
func genHistory(t *sim.Tape, n int, maxFlows int) []writeout {
	ifaces := []string{"eth0", "eth1"}
	nIf := 1 + t.Draw(2)
	ts := sim.Pick(t, startPool)
	perIfaceTS := map[string]int64{}
	var out []writeout
	for i := 0; i < n; i++ {
		w := writeout{iface: ifaces[t.Draw(nIf)]}
		last := perIfaceTS[w.iface]
		if last == 0 {
			last = ts
		}
		switch t.Draw(6) {
		case 0, 1, 2, 3:
			last += 300
		case 4:
			last += int64(1 + t.Draw(3600))
		default:
			last += int64(86400 + t.Draw(86400)) // skip a day
		}
		perIfaceTS[w.iface] = last
		w.ts = last
		w.flows = model.GenFlows(t, maxFlows, true)
		if t.Draw(4) == 0 {
			w.drops = uint64(t.Draw(1000))
		}
		w.enc = sim.Pick(t, encPool)
		w.level = t.Draw(3)
		out = append(out, w)
	}
	return out
}
