package store

import (
	"regexp"

	"verif/h"
)

var (
	reDigits = regexp.MustCompile(`[0-9]{5,}`)
	reSuffix = regexp.MustCompile(`_[A-Za-z0-9-]+`)
)

// canonPath strips run-specific parts (timestamps, temp suffixes, summary suffixes) from a path.
func canonPath(p string) string {
	p = reSuffix.ReplaceAllString(p, "_<summary>")
	p = reDigits.ReplaceAllString(p, "<n>")
	return p
}

var realStore = []string{"gpfile.GPDir/GPFile (write, metadata commit, read)", "goDB.DBWriter", "encoders lz4/zstd/null (cgo)", "goDB.DBWorkManager.ReadMetadata", "engine.QueryRunner", "info.GetInterfaces", "bufio", "hashmap"}
var stubStore = []string{"disk (verif/simfs, validated against the kernel by the differential self-test)"}

// Props are the properties served by the store-sim engine.
var Props = []*h.Prop{
	{ID: "C04", Run: c04, Bubble: false,
		Rule:        "one evaluation = one generated write-out history with a kill enumerated at every mutating file-system operation of every write-out (plus torn lengths of every write); non-trivial = at least one kill fired inside a write-out; distinct = distinct event-log hash (history, crash points and resulting disk states)",
		Real:        realStore,
		Stub:        stubStore,
		Assumptions: []string{"crash model is process kill: completed system calls survive, user-space buffers are lost (goProbe never fsyncs; power loss is out of scope)", "simfs agrees with Linux on the operation vocabulary used (differential self-test)"}},
	{ID: "C05", Run: c05,
		Rule:        "one evaluation = one generated write-out history with one injected error enumerated at every file-system operation of every write-out (errno rotated per op in the quick tier, every applicable errno in the thorough tier), a partial write + ENOSPC at every write, sticky disk-full spans, and (thorough) fault sequences across consecutive write-outs; non-trivial = at least one fault fired inside a write-out; distinct = distinct event-log hash",
		Real:        realStore,
		Stub:        stubStore,
		Assumptions: []string{"only errors a Linux kernel can return for that operation on a regular file are injected (no short reads, no EINTR)", "an error that strikes at or after the commit point (metadata rename) may leave the block committed although the call reports failure: un-acknowledged data may be old or new, never damaged"}},
}
