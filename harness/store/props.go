package store

import (
	"regexp"

	"verif/h"
)

var (
	reDigits = regexp.MustCompile(`[0-9]{5,}`)
	reSuffix = regexp.MustCompile(`_[A-Za-z0-9-]+`)
)

// canonPath strips run-specific parts (timestamps, temp suffixes, summary suffixes) from a path.
func canonPath(p string) string {
	p = reSuffix.ReplaceAllString(p, "_<summary>")
	p = reDigits.ReplaceAllString(p, "<n>")
	return p
}

var realStore = []string{"gpfile.GPDir/GPFile (write, metadata commit, read)", "goDB.DBWriter", "encoders lz4/zstd/null (cgo)", "goDB.DBWorkManager.ReadMetadata", "engine.QueryRunner", "info.GetInterfaces", "bufio", "hashmap"}
var stubStore = []string{"disk (verif/simfs, validated against the kernel by the differential self-test)"}

// Props are the properties served by the store-sim engine.
var Props = []*h.Prop{
	{ID: "C04", Run: c04, Bubble: false,
		Rule:        "one evaluation = one generated write-out history with a kill enumerated at every mutating file-system operation of every write-out (plus torn lengths of every write); non-trivial = at least one kill fired inside a write-out; distinct = distinct event-log hash (history, crash points and resulting disk states)",
		Real:        realStore,
		Stub:        stubStore,
		Assumptions: []string{"crash model is process kill: completed system calls survive, user-space buffers are lost (goProbe never fsyncs; power loss is out of scope)", "simfs agrees with Linux on the operation vocabulary used (differential self-test)"}},
	{ID: "C05", Run: c05,
		Rule:        "one evaluation = one generated write-out history with one injected error enumerated at every file-system operation of every write-out (errno rotated per op in the quick tier, every applicable errno in the thorough tier), a partial write + ENOSPC at every write, sticky disk-full spans, and (thorough) fault sequences across consecutive write-outs; non-trivial = at least one fault fired inside a write-out; distinct = distinct event-log hash",
		Real:        realStore,
		Stub:        stubStore,
		Assumptions: []string{"only errors a Linux kernel can return for that operation on a regular file are injected (no short reads, no EINTR)", "an error that strikes at or after the commit point (metadata rename) may leave the block committed although the call reports failure: un-acknowledged data may be old or new, never damaged"}},
	{ID: "C01", Run: c01,
		Rule:        "one evaluation = one generated history of 2-6 raw write sessions (arbitrary column payloads 0 B-300 KiB biased to the 4 KiB / 8 KiB buffer sizes, compressible and incompressible, all encoders, levels 0-12, several days and interfaces, restart between sessions) plus flow-level write-outs; after every session everything written so far is read back with the default and the read-all reader, in forward and reverse block order; non-trivial = every run (>= 2 sessions); distinct = distinct event-log hash",
		Real:        realStore,
		Stub:        stubStore,
		Assumptions: []string{"fault-free configuration of the store simulation (faults are C04/C05)", "input space of payloads is sampled, not enumerated"}},
	{ID: "C02", Run: c02,
		Rule:        "one evaluation = one generated history of 1-4 raw write sessions (arbitrary column payloads, sizes biased to the 4 KiB / 8 KiB buffers and beyond, all encoders and levels) and 1-4 flow-level write-outs, every session executed by a freshly started writer of a drawn build configuration (cgo, CGO_ENABLED=0, goprobe_noliblz4, goprobe_nolibzstd; modes: a new draw per session / one non-default build writes everything / the same history written by two builds on two disks); after every session a freshly started reader of a drawn build, and after the last session one of each of the four builds, reads everything written so far (both reader modes, summaries) and queries the flow-level interfaces through the real engine; non-trivial = every run; distinct = distinct event-log hash",
		Real:        append([]string{"encoder back ends of all four build configurations: lz4 (liblz4 via cgo), lz4 (pierrec/lz4), zstd (libzstd via cgo), zstd (klauspost/compress)"}, realStore...),
		Stub:        append([]string{"the build configuration itself: the pure-Go back ends are compiled into the cgo binary under other type names and selected at run time through encoder.New (verif/rewrite encSeam); the four files that differ between the builds all run, the linker configuration of a CGO_ENABLED=0 binary does not"}, stubStore...),
		Assumptions: []string{"only the four encoder back-end files differ between the build configurations (checked: no other file carries a cgo / goprobe_nolib* build constraint)", "fault-free configuration"}},
	{ID: "C03", Run: c03,
		Rule:        "one evaluation = one generated history of sessions whose timestamps come from a jumping clock (equal, backwards, before the day's first block, gaps of 2^32-1 and beyond, negative) and whose summaries reach beyond 2^32-1 / near 2^64 - two in three written block by block through GPDir, one in three a flow-level write-out through the real DBWriter (day directory chosen from the stamp, drop counts 2^32-1 and beyond) -, each checked accepted=>reopens equal / rejected=>day unchanged, followed by >= 30 malformed variants of the real .blockmeta (prefixes = torn metadata writes, bit flips, garbage, blown-up count and length fields) fed to the reader, the listing, the query engine and the writer's open path; non-trivial = every run; distinct = distinct event-log hash",
		Real:        realStore,
		Stub:        stubStore,
		Assumptions: []string{"a hang (as opposed to a panic) on malformed metadata would surface as a worker time-out (exit 2), not as a VIOLATION line"}},
	{ID: "C12", Run: c12,
		Rule:        "one evaluation = one generated write-out history (1-2 interfaces, up to several days incl. month/year ends) with 12 drawn (first,last) ranges per interface at 1-4 points of the history: bounds on block stamps, +-1 s around them, between blocks, on day boundaries, before/after all data, first=last; each compared with the model sum and with the totals of a real query; non-trivial = every run; distinct = distinct event-log hash",
		Real:        realStore,
		Stub:        stubStore,
		Assumptions: []string{"range bounds are inclusive on both ends (first <= block time <= last), as the query engine treats them"}},
	{ID: "C26", Run: c26,
		Rule:        "one evaluation = one generated CSV file (permuted schemas with/without iface column, header or --schema, IPv4/IPv6 rows, padded cells, malformed rows of eight kinds, duplicate keys, time regressions, MaxRows) imported twice through a reader that returns drawn chunk sizes (1..4096 bytes per read) and queried back through the real engine; non-trivial = at least one importable row; distinct = distinct event-log hash",
		Real:        append([]string{"csvimport.Import (schema, row parsing, flushing)", "encoding/csv, bufio"}, realStore...),
		Stub:        stubStore,
		Assumptions: []string{"short reads are injected only on the CSV input (a FIFO may do this), never on database files", "rows sharing interface, timestamp and key are expected to be summed, as the property states"}},
}
