package store

import (
	"context"
	"fmt"
	"strings"

	"github.com/els0r/goProbe/v4/pkg/goDB/encoder"
	"github.com/els0r/goProbe/v4/pkg/goDB/encoder/encoders"

	"verif/dbcheck"
	"verif/model"
	"verif/sim"
	"verif/simfs"
)

// buildCfg is one of the four build configurations of goProbe: which compression back ends the
// binary contains. In the simulation a "binary" is a setting of the two switches of the
// build-configuration seam (verif/rewrite encSeam); every encoder goProbe creates after the
// switch is of that build's kind.
type buildCfg struct {
	name                  string
	lz4Native, zstdNative bool
}

var builds = []buildCfg{
	{"cgo", false, false},
	{"CGO_ENABLED=0", true, true},
	{"goprobe_noliblz4", true, false},
	{"goprobe_nolibzstd", false, true},
}

// backend names the implementation a build uses for an encoder type (for violation signatures).
func (b buildCfg) backend(t encoders.Type) string {
	switch {
	case t == encoders.EncoderTypeLZ4 && b.lz4Native, t == encoders.EncoderTypeZSTD && b.zstdNative:
		return "pure Go"
	case t == encoders.EncoderTypeNull:
		return "n/a"
	}
	return "cgo"
}

func buildByName(n string) buildCfg {
	for _, b := range builds {
		if b.name == n {
			return b
		}
	}
	return builds[0]
}

func (b buildCfg) install() {
	encoder.VerifLZ4Native, encoder.VerifZSTDNative = b.lz4Native, b.zstdNative
}

// checkAllBuilds reads the whole database back as a freshly started reader process of every build
// configuration; flowIfaces (if any) are additionally queried through the real engine.
func (wd *world) checkAllBuilds(m *model.Store, flowIfaces []string, which []buildCfg) (by string, clause, detail string) {
	for _, b := range which {
		b.install()
		wd.fs.Restart("r")
		if _, cl, det := wd.CheckStore(m, nil, ""); cl != "" {
			return b.name, cl, det
		}
		if len(flowIfaces) > 0 {
			sub := model.NewStore()
			for _, iface := range flowIfaces {
				for _, d := range m.Days(iface) {
					for _, blk := range m.Ifaces[iface][d].Blocks {
						sub.Add(iface, blk)
					}
				}
			}
			const lo, hi = int64(1), int64(4102444800)
			res, err := dbcheck.Query(context.Background(), wd.Path, dbcheck.FullArgs(strings.Join(flowIfaces, ","), lo, hi))
			if err != nil {
				return b.name, "query-fails", err.Error()
			}
			if d := dbcheck.DiffRows(dbcheck.ExpectedRows(sub, lo, hi), dbcheck.RowsCanon(res.Rows)); d != "" {
				return b.name, "query-disagrees", d
			}
			if res.Summary.Stats != nil && res.Summary.Stats.BlocksCorrupted > 0 {
				return b.name, "blocks-reported-corrupted", fmt.Sprintf("%d blocks counted as corrupted", res.Summary.Stats.BlocksCorrupted)
			}
		}
	}
	return "", "", ""
}

// C02: a restart may come back as a differently built binary over the same disk image. Histories
// of raw write sessions and flow-level write-outs are executed session by session under drawn
// build configurations (mixed: a new draw per session; uniform: one non-default build writes
// everything; twin: the same history written by two builds on two disks); after every session
// every build reads everything written so far and must see exactly the model.
func c02(r *sim.R) *sim.Violation {
	defer builds[0].install()
	mode := r.T.Draw(3) // 0 mixed, 1 uniform, 2 twin
	nSess := 1 + r.T.Draw(4)
	base := sim.Pick(r.T, startPool)
	big := r.T.Draw(3) == 0
	uniform := builds[1+r.T.Draw(3)]
	twinA, twinB := builds[r.T.Draw(4)], builds[r.T.Draw(4)]
	r.Nontriv = true

	// the history (independent of the builds that execute it)
	type step struct {
		raw *rawSession
		wo  *writeout
	}
	var steps []step
	m0 := model.NewStore() // model used while generating (to continue days)
	nextTS := map[string]int64{}
	ifaces := []string{"eth0", "eth1"}
	for i := 0; i < nSess; i++ {
		// levels: mostly the fast ones (the pure-Go zstd back end is slow at its high levels, and
		// the level dimension belongs to C07); one session in eight takes any level
		s := rawSession{iface: ifaces[r.T.Draw(2)], enc: sim.Pick(r.T, encPool), level: []int{0, 1, 3, 6}[r.T.Draw(4)]}
		if r.T.Chance(1, 8) {
			s.level = r.T.Draw(13)
		}
		ts := nextTS[s.iface]
		if ts == 0 {
			ts = base
		}
		if r.T.Draw(4) == 0 {
			ts += 86400
		}
		s.dirTS = ts
		if d := m0.Ifaces[s.iface][model.DayOf(ts)]; d != nil && len(d.Blocks) > 0 {
			if last := d.Blocks[len(d.Blocks)-1].TS; ts <= last {
				ts = last + 300
			}
		}
		nb := 1 + r.T.Draw(3)
		for j := 0; j < nb; j++ {
			b, note := genRawBlock(r.T, ts, big)
			b.Enc = s.enc.String()
			s.blocks = append(s.blocks, b)
			s.notes = append(s.notes, note)
			ts += int64(1 + r.T.Draw(600))
		}
		nextTS[s.iface] = ts
		for _, b := range s.blocks {
			m0.AddTo(s.iface, model.DayOf(s.dirTS), b)
		}
		sc := s
		steps = append(steps, step{raw: &sc})
	}
	hist := genHistory(r.T, 1+r.T.Draw(4), 200)
	flowIfaces := map[string]bool{}
	for i := range hist {
		wo := &hist[i]
		wo.iface = "flow-" + wo.iface
		wo.level = []int{0, 1, 3, 6}[r.T.Draw(4)]
		flowIfaces[wo.iface] = true
		steps = append(steps, step{wo: wo})
	}

	readers := make([]buildCfg, len(steps))
	for i := range readers {
		readers[i] = builds[r.T.Draw(4)]
	}
	run := func(label string, pick func(i int) buildCfg) *sim.Violation {
		wd := newWorld(r)
		defer simfs.Install(wd.fs)()
		m := model.NewStore()
		var flows []string
		for i, st := range steps {
			b := pick(i)
			b.install()
			wd.fs.Restart("w")
			var err error
			var what, sig string
			if st.raw != nil {
				what, sig = st.raw.String(), "raw session, enc="+st.raw.enc.String()
				r.Event("%s %d: written by build %s: %s", label, i, b.name, what)
				if p := simfs.RunProc(func() { _, err = st.raw.exec() }); p != nil {
					panic(p)
				}
			} else {
				what, sig = st.wo.String(), "flow-level write-out, enc="+st.wo.enc.String()
				r.Event("%s %d: written by build %s: %s", label, i, b.name, what)
				if p := simfs.RunProc(func() { err = st.wo.exec() }); p != nil {
					panic(p)
				}
			}
			enc := encoders.EncoderTypeNull
			if st.raw != nil {
				enc = st.raw.enc
			} else {
				enc = st.wo.enc
			}
			sig += ", writer back end " + b.backend(enc)
			if err != nil {
				return r.Report(&sim.Violation{Clause: "write-fails", Signature: sig, Detail: fmt.Sprintf("%s: %v", what, err)})
			}
			if st.raw != nil {
				for _, blk := range st.raw.blocks {
					m.AddTo(st.raw.iface, model.DayOf(st.raw.dirTS), blk)
				}
			} else {
				m.Add(st.wo.iface, st.wo.block())
				if len(flows) == 0 || flows[len(flows)-1] != st.wo.iface {
					flows = nil
					for _, k := range sim.SortedKeys(flowIfaces) {
						if len(m.Days(k)) > 0 {
							flows = append(flows, k)
						}
					}
				}
			}
			// intermediate states are read by one drawn build, the final state by all four
			which := builds
			if i < len(steps)-1 {
				which = []buildCfg{readers[i]}
			}
			if by, cl, det := wd.checkAllBuilds(m, flows, which); cl != "" {
				return r.Report(&sim.Violation{Clause: cl, Signature: sig + ", reader back end " + buildByName(by).backend(enc), Detail: fmt.Sprintf("after %s (build %s), read by build %s:\n%s", what, b.name, by, det)})
			}
			r.Steps += wd.fs.Proc("w").Ops
			if b != builds[0] {
				r.Probe("session_written_by_non_default_build")
			}
		}
		return nil
	}

	switch mode {
	case 0:
		picks := make([]buildCfg, len(steps))
		for i := range picks {
			picks[i] = builds[r.T.Draw(4)]
		}
		r.Shape = "mixed"
		return run("mixed", func(i int) buildCfg { return picks[i] })
	case 1:
		r.Shape = "uniform " + uniform.name
		return run("uniform", func(int) buildCfg { return uniform })
	default:
		r.Shape = "twin"
		if v := run("twin-A", func(int) buildCfg { return twinA }); v != nil {
			return v
		}
		return run("twin-B", func(int) buildCfg { return twinB })
	}
}
