package store

import (
	"context"
	"fmt"
	"sort"
	"strings"

	"github.com/els0r/goProbe/v4/cmd/gpdb/pkg/csvimport"

	"verif/dbcheck"
	"verif/model"
	"verif/sim"
	"verif/simfs"
)

// csvRow is one generated input row.
type csvRow struct {
	iface   string
	ts      int64
	flow    model.Flow
	text    string // rendered line
	accept  bool   // the documentation says this row is importable
	why     string // why it is not
	dropped bool   // beyond MaxRows
}

var csvFields = []string{"time", "iface", "sip", "dip", "dport", "proto", "packets received", "packets sent", "data vol. received", "data vol. sent"}

// C26: generated CSV files imported through a reader that returns drawn chunk sizes; the
// destination must hold exactly the accepted rows.
func c26(r *sim.R) *sim.Violation {
	t := r.T
	wd := newWorld(r)
	wd.fs.Mount("in", "input")
	defer simfs.Install(wd.fs)()
	// schema: a permutation of the fields, optionally without iface (then --iface), optionally
	// with an unknown extra column
	fields := append([]string(nil), csvFields...)
	withIface := t.Draw(3) != 0
	if !withIface {
		fields = append(fields[:1], fields[2:]...)
	}
	if t.Draw(3) == 0 { // shuffle
		for i := len(fields) - 1; i > 0; i-- {
			j := t.Draw(i + 1)
			fields[i], fields[j] = fields[j], fields[i]
		}
	}
	if t.Draw(4) == 0 {
		fields = append(fields, "%")
	}
	viaOption := t.Draw(2) == 0
	dupKeys := t.Draw(2) == 0
	regress := t.Draw(6) == 0
	nRows := 1 + t.Draw(40)
	ts := sim.Pick(t, startPool)
	ifaces := []string{"eth0", "eth1", "tun-3"}
	var rows []csvRow
	var prev *csvRow
	regressAt := -1
	if regress && nRows > 2 {
		regressAt = 1 + t.Draw(nRows-1)
	}
	for i := 0; i < nRows; i++ {
		switch t.Draw(5) {
		case 0:
			ts += 300
		case 1:
			ts += int64(1 + t.Draw(100000))
		}
		row := csvRow{iface: ifaces[t.Draw(len(ifaces))], ts: ts, flow: model.GenFlow(t, true), accept: true}
		if !withIface {
			row.iface = "opt0"
		}
		if dupKeys && prev != nil && t.Draw(3) == 0 {
			// same key (and interface and time) as the previous row, other counters
			row.iface, row.ts, row.flow.V4, row.flow.Sip, row.flow.Dip, row.flow.Dport, row.flow.Proto = prev.iface, prev.ts, prev.flow.V4, prev.flow.Sip, prev.flow.Dip, prev.flow.Dport, prev.flow.Proto
		}
		if i == regressAt {
			row.ts = ts - int64(1+t.Draw(1000))
		}
		vals := map[string]string{
			"time": fmt.Sprint(row.ts), "iface": row.iface, "sip": model.IPString(row.flow.Sip), "dip": model.IPString(row.flow.Dip),
			"dport": fmt.Sprint(row.flow.Dport), "proto": fmt.Sprint(row.flow.Proto),
			"packets received": fmt.Sprint(row.flow.C.PR), "packets sent": fmt.Sprint(row.flow.C.PS),
			"data vol. received": fmt.Sprint(row.flow.C.BR), "data vol. sent": fmt.Sprint(row.flow.C.BS), "%": "12.5",
		}
		if row.flow.Proto == 6 && t.Draw(2) == 0 {
			vals["proto"] = "TCP"
		}
		// malformed rows
		short := false
		switch t.Draw(14) {
		case 0:
			vals["sip"], row.accept, row.why = "not-an-ip", false, "bad address"
		case 1:
			vals["dport"], row.accept, row.why = "70000", false, "port out of range"
		case 2:
			vals["data vol. sent"], row.accept, row.why = "-5", false, "negative counter"
		case 3:
			if row.flow.V4 {
				vals["dip"], row.accept, row.why = "2001:db8::99", false, "mixed IP versions"
			}
		case 4:
			if withIface {
				vals["iface"], row.accept, row.why = "", false, "empty interface"
			}
		case 5:
			if withIface {
				vals["iface"], row.accept, row.why = "a/b", false, "interface with path separator"
			}
		case 6:
			short, row.accept, row.why = true, false, "too few fields"
		case 7:
			vals["time"], row.accept, row.why = "0", false, "no timestamp"
		}
		var cells []string
		for _, f := range fields {
			c := vals[f]
			if t.Draw(8) == 0 {
				c = " " + c + " "
			}
			cells = append(cells, c)
		}
		if short {
			cells = cells[:1+t.Draw(len(cells)-1)]
			// a short row is only "too short" if it lacks a parseable field
			last := 0
			for ix, f := range fields {
				if f != "%" {
					last = ix
				}
			}
			if len(cells) > last {
				row.accept, row.why = true, ""
			}
		}
		row.text = strings.Join(cells, ",")
		rows = append(rows, row)
		prev = &rows[len(rows)-1]
	}
	maxRows := 0
	if t.Draw(5) == 0 {
		maxRows = 1 + t.Draw(nRows)
	}
	var sb strings.Builder
	if !viaOption {
		sb.WriteString(strings.Join(fields, ",") + "\n")
	}
	for _, row := range rows {
		sb.WriteString(row.text + "\n")
	}
	wd.fs.WriteRaw("input", "/input.csv", []byte(sb.String()))
	// expected outcome
	type k struct {
		iface string
		ts    int64
		key   string
	}
	exp := map[k]*model.Flow{}
	var order []k
	read, imported, skipped := 0, 0, 0
	cur := int64(0)
	wantErr := false
	for i := range rows {
		row := &rows[i]
		if maxRows > 0 && read >= maxRows {
			row.dropped = true
			continue
		}
		read++
		if !row.accept {
			skipped++
			continue
		}
		if row.ts < cur {
			wantErr = true
			break
		}
		cur = row.ts
		imported++
		kk := k{row.iface, row.ts, row.flow.KeyString()}
		if e, ok := exp[kk]; ok {
			e.C.Add(row.flow.C) // rows sharing a key are summed
			r.Probe("duplicate_key_rows")
		} else {
			f := row.flow
			exp[kk] = &f
			order = append(order, kk)
		}
	}
	r.Nontriv = imported > 0
	r.Event("csv: %d rows, schema %v, viaOption=%v maxRows=%d dupKeys=%v regressAt=%d", len(rows), fields, viaOption, maxRows, dupKeys, regressAt)
	for _, row := range rows {
		r.Event("  %s  [%v %s]", row.text, row.accept, row.why)
	}
	// two imports of the same file with different read chunking
	var firstCanon []string
	for pass := 0; pass < 2; pass++ {
		dest := fmt.Sprintf("/sim/w/out%d", pass)
		destR := fmt.Sprintf("/sim/r/out%d", pass)
		chunks := []int{0, 1, 7, 100, 4096}[t.Draw(5)]
		wd.fs.ShortReads = func(op *simfs.Op) int {
			if op.Path != "/input.csv" {
				return 0
			}
			if chunks == 0 {
				return 0
			}
			r.Fault("short-read")
			return 1 + t.Draw(chunks)
		}
		opts := csvimport.Options{InputPath: "/sim/in/input.csv", OutputPath: dest, MaxRows: maxRows, EncoderType: encPool[pass%len(encPool)]}
		if viaOption {
			opts.Schema = strings.Join(fields, ",")
		}
		if !withIface {
			opts.Interface = "opt0"
		}
		wd.fs.Restart("w")
		var sum csvimport.Summary
		var err error
		if p := simfs.RunProc(func() { sum, err = csvimport.Import(context.Background(), opts) }); p != nil {
			panic(p)
		}
		wd.fs.ShortReads = nil
		sig := "csv import"
		if wantErr {
			if err == nil {
				return r.Report(&sim.Violation{Clause: "time-regression-accepted", Signature: sig, Detail: fmt.Sprintf("input goes backwards in time at row %d but the import succeeded: %+v", regressAt+1, sum)})
			}
			r.Probe("time_regression_rejected")
			continue
		}
		if err != nil {
			return r.Report(&sim.Violation{Clause: "import-fails", Signature: sig, Detail: err.Error()})
		}
		if sum.RowsRead != sum.RowsImported+sum.RowsSkipped {
			if v := r.Report(&sim.Violation{Clause: "row-accounting", Signature: sig, Detail: fmt.Sprintf("read %d != imported %d + skipped %d", sum.RowsRead, sum.RowsImported, sum.RowsSkipped)}); v != nil {
				return v
			}
		}
		if sum.RowsRead != read || sum.RowsImported != imported || sum.RowsSkipped != skipped {
			if v := r.Report(&sim.Violation{Clause: "row-counts-differ", Signature: sig, Detail: fmt.Sprintf("import reports read=%d imported=%d skipped=%d; the input has read=%d importable=%d not importable=%d",
				sum.RowsRead, sum.RowsImported, sum.RowsSkipped, read, imported, skipped)}); v != nil {
				return v
			}
		}
		// query the destination
		var want []string
		for _, kk := range order {
			f := exp[kk]
			want = append(want, fmt.Sprintf("%d|%s|%s|%s|%d|%d|br=%d bs=%d pr=%d ps=%d", kk.ts, kk.iface, model.IPString(f.Sip), model.IPString(f.Dip), f.Dport, f.Proto, f.C.BR, f.C.BS, f.C.PR, f.C.PS))
		}
		sort.Strings(want)
		wd.fs.Restart("r")
		var got []string
		if imported > 0 {
			res, err := dbcheck.Query(context.Background(), destR, dbcheck.FullArgs("any", 1, 4102444800))
			if err != nil {
				return r.Report(&sim.Violation{Clause: "query-fails", Signature: sig, Detail: err.Error()})
			}
			got = dbcheck.RowsCanon(res.Rows)
		}
		if d := dbcheck.DiffRows(want, got); d != "" {
			clause := "stored-rows-differ"
			if dupKeys {
				clause = "stored-rows-differ-with-duplicate-keys"
			}
			if v := r.Report(&sim.Violation{Clause: clause, Signature: sig, Detail: d}); v != nil {
				return v
			}
		}
		// queries that start at a day boundary inside the data: every row must be found under the
		// day its timestamp belongs to (a block filed under a neighbouring day is visible to a
		// full-range query but not to one that starts or ends at the boundary)
		bounds := map[int64]bool{}
		for _, kk := range order {
			bounds[model.DayOf(kk.ts)] = true
		}
		var bs []int64
		for b := range bounds {
			bs = append(bs, b)
		}
		sort.Slice(bs, func(i, j int) bool { return bs[i] < bs[j] })
		if len(bs) > 3 {
			bs = bs[len(bs)-3:]
		}
		for _, b := range bs {
			if imported == 0 {
				break
			}
			for _, rng := range [][2]int64{{b, 4102444800}, {1, b - 1}} {
				var w []string
				for _, kk := range order {
					if kk.ts >= rng[0] && kk.ts <= rng[1] {
						f := exp[kk]
						w = append(w, fmt.Sprintf("%d|%s|%s|%s|%d|%d|br=%d bs=%d pr=%d ps=%d", kk.ts, kk.iface, model.IPString(f.Sip), model.IPString(f.Dip), f.Dport, f.Proto, f.C.BR, f.C.BS, f.C.PR, f.C.PS))
					}
				}
				if len(w) == 0 {
					continue
				}
				res, err := dbcheck.Query(context.Background(), destR, dbcheck.FullArgs("any", rng[0], rng[1]))
				var g []string
				if err == nil {
					g = dbcheck.RowsCanon(res.Rows)
				}
				if err != nil || dbcheck.DiffRows(w, g) != "" {
					return r.Report(&sim.Violation{Clause: "rows-not-found-under-their-day", Signature: sig,
						Detail: fmt.Sprintf("query over [%d,%d] (a day boundary of the imported data): err=%v\n%s", rng[0], rng[1], err, dbcheck.DiffRows(w, g))})
				}
			}
		}
		if pass == 0 {
			firstCanon = got
		} else if dbcheck.DiffRows(firstCanon, got) != "" {
			return r.Report(&sim.Violation{Clause: "result-depends-on-read-chunking", Signature: sig, Detail: dbcheck.DiffRows(firstCanon, got)})
		}
	}
	return nil
}
