package store

import (
	"context"
	"fmt"

	"verif/dbcheck"
	"verif/model"
	"verif/sim"
	"verif/simfs"
)

// C12: interface summaries for drawn (first, last) ranges equal the sum over the stored blocks in
// the range and agree with the totals of a query over the same interface and range.
func c12(r *sim.R) *sim.Violation {
	wd := newWorld(r)
	defer simfs.Install(wd.fs)()
	m := model.NewStore()
	hist := genHistory(r.T, 2+r.T.Draw(8), 8)
	r.Nontriv = true
	for i := range hist {
		wo := &hist[i]
		r.Event("%d: %s", i, wo)
		wd.fs.Restart("w")
		var err error
		if p := simfs.RunProc(func() { err = wo.exec() }); p != nil {
			panic(p)
		}
		if err != nil {
			return r.Report(&sim.Violation{Clause: "writeout-fails", Signature: "fault-free write-out returns an error", Detail: fmt.Sprintf("%s: %v", wo, err)})
		}
		m.Add(wo.iface, wo.block())
		if i < len(hist)-1 && r.T.Draw(3) != 0 {
			continue
		}
		// ranges
		wd.fs.Restart("r")
		for _, iface := range m.IfaceNames() {
			var stamps []int64
			for _, d := range m.Days(iface) {
				for _, b := range m.Ifaces[iface][d].Blocks {
					stamps = append(stamps, b.TS)
				}
			}
			pick := func() (int64, string) {
				s := stamps[r.T.Draw(len(stamps))]
				switch r.T.Draw(8) {
				case 0:
					return s, "on a block"
				case 1:
					return s - 1, "one second before a block"
				case 2:
					return s + 1, "one second after a block"
				case 3:
					return s + 150, "between blocks"
				case 4:
					return model.DayOf(s), "on a day boundary"
				case 5:
					return model.DayOf(s) + 86400, "on the next day boundary"
				case 6:
					return stamps[0] - int64(1+r.T.Draw(200000)), "before all data"
				default:
					return stamps[len(stamps)-1] + int64(1+r.T.Draw(200000)), "after all data"
				}
			}
			for k := 0; k < 12; k++ {
				first, fk := pick()
				last, lk := pick()
				if r.T.Draw(6) == 0 {
					last, lk = first, "equal to first"
				}
				if first > last {
					first, last, fk, lk = last, first, lk, fk
				}
				if first <= 0 {
					continue
				}
				var wt model.Traffic
				var wc model.Counters
				n := 0
				for _, d := range m.Days(iface) {
					for _, b := range m.Ifaces[iface][d].Blocks {
						if b.TS >= first && b.TS <= last {
							wt.V4 += b.Traffic.V4
							wt.V6 += b.Traffic.V6
							wt.Drops += b.Traffic.Drops
							wc.Add(b.Counts)
							n++
						}
					}
				}
				sig := fmt.Sprintf("first %s, last %s", fk, lk)
				r.Event("  range %s [%d,%d] %s: %d blocks", iface, first, last, sig, n)
				md, err := dbcheck.Listing(rdb, iface, first, last)
				if err != nil {
					if v := r.Report(&sim.Violation{Clause: "listing-fails", Signature: sig, Detail: fmt.Sprintf("iface %s range [%d,%d]: %v", iface, first, last, err)}); v != nil {
						return v
					}
					continue
				}
				gt := model.Traffic{V4: md.Traffic.NumV4Entries, V6: md.Traffic.NumV6Entries, Drops: md.Traffic.NumDrops}
				gc := model.Counters{BR: md.Counts.BytesRcvd, BS: md.Counts.BytesSent, PR: md.Counts.PacketsRcvd, PS: md.Counts.PacketsSent}
				if gt != wt || gc != wc {
					if v := r.Report(&sim.Violation{Clause: "summary-differs-from-stored-blocks", Signature: sig,
						Detail: fmt.Sprintf("iface %s range [%d,%d] (%s): summary %+v %+v, the %d stored blocks in range sum to %+v %+v\nblock stamps: %v", iface, first, last, sig, gt, gc, n, wt, wc, stamps)}); v != nil {
						return v
					}
				}
				res, err := dbcheck.Query(context.Background(), rdb, dbcheck.FullArgs(iface, first, last))
				if err != nil {
					if v := r.Report(&sim.Violation{Clause: "query-fails", Signature: sig, Detail: fmt.Sprintf("iface %s range [%d,%d]: %v", iface, first, last, err)}); v != nil {
						return v
					}
					continue
				}
				qt := res.Summary.Totals
				qc := model.Counters{BR: qt.BytesRcvd, BS: qt.BytesSent, PR: qt.PacketsRcvd, PS: qt.PacketsSent}
				if qc != gc {
					if v := r.Report(&sim.Violation{Clause: "summary-differs-from-query-totals", Signature: sig,
						Detail: fmt.Sprintf("iface %s range [%d,%d] (%s): summary counters %+v, query totals %+v (model %+v)\nblock stamps: %v", iface, first, last, sig, gc, qc, wc, stamps)}); v != nil {
						return v
					}
				}
			}
		}
	}
	return nil
}
