package store

import (
	"fmt"
	"syscall"

	"verif/dbcheck"
	"verif/h"
	"verif/model"
	"verif/sim"
	"verif/simfs"
)

// errnosFor lists the error numbers a real kernel can return for an operation kind on a regular
// file system (disk full, I/O error, permission, descriptor exhaustion).
func errnosFor(k simfs.OpKind) []syscall.Errno {
	switch k {
	case simfs.OpOpen:
		return []syscall.Errno{syscall.EACCES, syscall.EMFILE, syscall.EIO}
	case simfs.OpCreate:
		return []syscall.Errno{syscall.ENOSPC, syscall.EACCES, syscall.EMFILE}
	case simfs.OpMkdir:
		return []syscall.Errno{syscall.ENOSPC, syscall.EACCES}
	case simfs.OpWrite:
		return []syscall.Errno{syscall.ENOSPC, syscall.EIO}
	case simfs.OpSeek, simfs.OpClose, simfs.OpRead, simfs.OpReadDir, simfs.OpReadFile:
		return []syscall.Errno{syscall.EIO}
	case simfs.OpStat:
		return []syscall.Errno{syscall.EIO, syscall.EACCES}
	case simfs.OpChmod:
		return []syscall.Errno{syscall.EPERM, syscall.EIO}
	case simfs.OpRename:
		return []syscall.Errno{syscall.ENOSPC, syscall.EACCES, syscall.EIO}
	case simfs.OpRemove:
		return []syscall.Errno{syscall.EACCES, syscall.EIO}
	}
	return []syscall.Errno{syscall.EIO}
}

type errPoint struct {
	ix      int // op index within the write-out
	errno   syscall.Errno
	partial int // >0: partial write of that many bytes, then errno
	until   int // sticky: fail every op in [ix, until); 0 = single fault
}

func (e errPoint) String() string {
	s := fmt.Sprintf("op #%d fails with %v", e.ix, e.errno)
	if e.partial > 0 {
		s = fmt.Sprintf("op #%d writes %d bytes then fails with %v", e.ix, e.partial, e.errno)
	}
	if e.until > 0 {
		s += fmt.Sprintf(" (sticky until op #%d)", e.until)
	}
	return s
}

func errPlan(ep errPoint, fired *int) simfs.Plan {
	return func(op *simfs.Op) simfs.Action {
		hit := op.Index == ep.ix || (ep.until > 0 && op.Index >= ep.ix && op.Index < ep.until)
		if !hit {
			return simfs.Action{}
		}
		*fired++
		if ep.partial > 0 && op.Kind == simfs.OpWrite && op.Index == ep.ix {
			return simfs.Action{Kind: simfs.Partial, Bytes: ep.partial, Errno: ep.errno}
		}
		e := ep.errno
		if op.Index != ep.ix { // sticky: use an errno valid for this op kind
			ok := false
			for _, c := range errnosFor(op.Kind) {
				if c == e {
					ok = true
				}
			}
			if !ok {
				e = errnosFor(op.Kind)[0]
			}
		}
		return simfs.Action{Kind: simfs.Fail, Errno: e}
	}
}

// C05: a single injected error at every file-system call of every write-out of a generated
// history (quick), plus sticky faults and fault sequences over consecutive write-outs (thorough).
func c05(r *sim.R) *sim.Violation {
	thorough := h.Thorough()
	wd := newWorld(r)
	defer simfs.Install(wd.fs)()
	nWO := 2 + r.T.Draw(3)
	hist := genHistory(r.T, nWO, 6)
	followFlows := model.GenFlows(r.T, 4, true)
	rot := r.T.Draw(3)
	m := model.NewStore()
	r.Nontriv = true
	for i := range hist {
		wo := &hist[i]
		r.Event("%d: %s", i, wo)
		snap := wd.fs.Snapshot()
		wp := wd.fs.Restart("w")
		var ops []simfs.Op
		wp.Plan = func(op *simfs.Op) simfs.Action { ops = append(ops, *op); return simfs.Action{} }
		var err error
		if p := simfs.RunProc(func() { err = wo.exec() }); p != nil {
			panic(p)
		}
		if err != nil {
			return r.Report(&sim.Violation{Clause: "writeout-fails", Signature: "fault-free write-out returns an error", Detail: fmt.Sprintf("%s: %v", wo, err)})
		}
		after := m.Clone()
		after.Add(wo.iface, wo.block())
		done := wd.fs.Snapshot()
		wd.fs.Restore(snap)
		oldName, oldMeta := "", []byte(nil)
		if names := dbcheck.DayDirNames(wd.fs, tree, rel, wo.iface, model.DayOf(wo.ts)); len(names) > 0 {
			oldName = names[0]
			oldMeta, _ = wd.fs.ReadRaw(tree, dayPath(wo.iface, wo.ts, oldName)+"/.blockmeta")
		}
		var eps []errPoint
		for _, op := range ops {
			es := errnosFor(op.Kind)
			if thorough {
				for _, e := range es {
					eps = append(eps, errPoint{ix: op.Index, errno: e})
				}
			} else {
				eps = append(eps, errPoint{ix: op.Index, errno: es[(op.Index+rot)%len(es)]})
			}
			if op.Kind == simfs.OpWrite && op.N > 1 {
				eps = append(eps, errPoint{ix: op.Index, errno: syscall.ENOSPC, partial: 1 + (op.Index+rot)%(op.N-1)})
			}
		}
		if thorough || r.T.Draw(2) == 0 {
			// disk full for a span of operations
			for k := 0; k < 3; k++ {
				a := r.T.Draw(len(ops))
				eps = append(eps, errPoint{ix: a, errno: syscall.ENOSPC, until: a + 2 + r.T.Draw(len(ops))})
			}
		}
		states := map[string]bool{}
		for _, ep := range eps {
			wd.fs.Restore(snap)
			wp := wd.fs.Restart("w")
			fired := 0
			wp.Plan = errPlan(ep, &fired)
			var werr error
			if p := simfs.RunProc(func() { werr = wo.exec() }); p != nil {
				panic(p)
			}
			if fired == 0 {
				continue // the faulted execution took a different path and never reached the op
			}
			r.Steps += wp.Ops
			opd := ops[ep.ix]
			where := fmt.Sprintf("%s %s", opd.Kind, opSig(opd.Path))
			if opd.Path2 != "" {
				where += " -> " + opSig(opd.Path2)
			}
			kind := "error"
			if ep.partial > 0 {
				kind = "partial write"
			}
			if ep.until > 0 {
				kind = "sticky error from"
			}
			_ = kind
			sig := "failed write-out, " + wd.dayState(wo, oldMeta, oldName)
			if werr == nil {
				sig = "write-out acknowledged despite the fault, " + wd.dayState(wo, oldMeta, oldName)
			}
			if werr == nil && writeFaultSwallowed(ops, ep) {
				// "the write reports an error": a failed write(2), or a failed close(2) of a file this
				// write-out wrote to (the kernel reports deferred write errors there), was acknowledged
				if v := r.Report(&sim.Violation{Clause: "write-error-swallowed", Signature: "write-out acknowledged although " + string(opd.Kind) + " of " + opSig(opd.Path) + " failed",
					Detail: fmt.Sprintf("history step %d: %s; %v (%s); write-out returned nil", i, wo, ep, where)}); v != nil {
					return v
				}
			}
			st := fmt.Sprintf("%s/%v", wd.fs.TreeHash(tree), werr == nil)
			if states[st] {
				r.Probe("duplicate_post_fault_state")
				continue
			}
			states[st] = true
			r.Probe("distinct_post_fault_state")
			r.Event("  fault %v (%s) -> err=%v", ep, where, werr != nil)
			if v := wd.afterFault(r, m, after, wo, werr, sig, followFlows); v != nil {
				v.Detail = fmt.Sprintf("history step %d: %s; %v (%s); write-out returned: %v\n%s", i, wo, ep, where, werr, v.Detail)
				return v
			}
			if thorough && werr != nil && r.T.Draw(4) == 0 {
				// fault sequence: the retry of the next write-out is faulted as well
				if v := wd.faultedRetry(r, m, wo, sig, followFlows); v != nil {
					return v
				}
			}
		}
		wd.fs.Restore(done)
		m = after
	}
	return nil
}

// writeFaultSwallowed says whether the faulted operation is one whose failure means that data of
// this write-out may not have reached the file: a write, or the close of a file written before.
func writeFaultSwallowed(ops []simfs.Op, ep errPoint) bool {
	opd := ops[ep.ix]
	switch opd.Kind {
	case simfs.OpWrite:
		return true
	case simfs.OpClose:
		for _, o := range ops[:ep.ix] {
			if o.Kind == simfs.OpWrite && o.Path == opd.Path && o.N > 0 {
				return true
			}
		}
	}
	return false
}

// afterFault checks the obligations of C05 once the fault has cleared.
func (wd *world) afterFault(r *sim.R, before, after *model.Store, wo *writeout, werr error, sig string, followFlows []model.Flow) *sim.Violation {
	wd.fs.Restart("r")
	var seen *model.Store
	if werr == nil {
		// the call reported success: its data must be fully committed
		s, cl, det := wd.CheckStore(after, nil, "")
		if cl != "" {
			if v := r.Report(&sim.Violation{Clause: "acknowledged-but-" + cl, Signature: sig, Detail: det}); v != nil {
				return v
			}
			if s == nil {
				return nil
			}
		}
		seen = s
		r.Probe("fault_survived_write_acknowledged")
	} else {
		blk := wo.block()
		s, cl, det := wd.CheckStore(before, &blk, wo.iface)
		if cl != "" {
			if v := r.Report(&sim.Violation{Clause: cl, Signature: sig, Detail: det}); v != nil {
				return v
			}
			if s == nil {
				return nil
			}
		}
		seen = s
	}
	if v := wd.CheckServices(seen, wo.iface, true, func(cl, det string) *sim.Violation {
		return r.Report(&sim.Violation{Clause: cl, Signature: sig, Detail: det})
	}); v != nil {
		return v
	}
	// once the fault has cleared, later write-outs succeed and read back
	next := &writeout{iface: wo.iface, ts: wo.ts + 300, flows: followFlows, enc: wo.enc}
	if model.DayOf(next.ts) != model.DayOf(wo.ts) {
		next.ts = wo.ts + 1
	}
	wd.fs.Restart("w")
	var err error
	if p := simfs.RunProc(func() { err = next.exec() }); p != nil {
		panic(p)
	}
	if err != nil {
		return r.Report(&sim.Violation{Clause: "next-writeout-fails", Signature: sig, Detail: fmt.Sprintf("%s after the fault cleared: %v", next, err)})
	}
	aft := seen.Clone()
	aft.Add(next.iface, next.block())
	wd.fs.Restart("r")
	seen2, cl, det := wd.CheckStore(aft, nil, "")
	if cl != "" {
		return r.Report(&sim.Violation{Clause: "next-writeout-" + cl, Signature: sig, Detail: fmt.Sprintf("after %s following the fault: %s", next, det)})
	}
	return wd.CheckServices(seen2, "", false, func(cl, det string) *sim.Violation {
		return r.Report(&sim.Violation{Clause: "next-writeout-" + cl, Signature: sig, Detail: det})
	})
}

// faultedRetry injects a second fault into the write-out that follows a failed one.
func (wd *world) faultedRetry(r *sim.R, before *model.Store, wo *writeout, sig string, followFlows []model.Flow) *sim.Violation {
	wd.fs.Restart("r")
	blk := wo.block()
	seen, cl, _ := wd.CheckStore(before, &blk, wo.iface)
	if cl != "" || seen == nil {
		return nil // already reported by afterFault
	}
	next := &writeout{iface: wo.iface, ts: wo.ts + 2, flows: followFlows, enc: wo.enc}
	if model.DayOf(next.ts) != model.DayOf(wo.ts) {
		return nil
	}
	wp := wd.fs.Restart("w")
	fired := 0
	ep := errPoint{ix: r.T.Draw(40), errno: syscall.EIO}
	wp.Plan = errPlan(ep, &fired)
	var werr error
	if p := simfs.RunProc(func() { werr = next.exec() }); p != nil {
		panic(p)
	}
	if fired == 0 {
		return nil
	}
	r.Probe("fault_sequence_second_fault_fired")
	after := seen.Clone()
	after.Add(next.iface, next.block())
	follow := model.GenFlows(r.T, 3, true)
	if v := wd.afterFault(r, seen, after, next, werr, sig+"; then a second fault in the next write-out", follow); v != nil {
		v.Detail = fmt.Sprintf("fault sequence: %s, then %s with %v (returned %v)\n%s", sig, next, ep, werr, v.Detail)
		return v
	}
	return nil
}
