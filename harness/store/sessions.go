package store

import (
	"fmt"
	"strings"

	"github.com/els0r/goProbe/v4/pkg/goDB/encoder/encoders"
	"github.com/els0r/goProbe/v4/pkg/goDB/storage/gpfile"
	"github.com/els0r/goProbe/v4/pkg/types"

	"verif/model"
	"verif/sim"
	"verif/simfs"
)

// payloadSizes is biased to the 4 KiB bufio buffer, the 8 KiB length and the 16 KiB capacity of
// the pooled scratch buffers (MemPoolNoLimit.Get(8192) allocates twice the requested size).
var payloadSizes = []int{0, 1, 7, 100, 4095, 4096, 4097, 8191, 8192, 8193, 16300, 16350, 16383, 16384, 16385, 20000, 32767, 70000, 300000}

var payloadKinds = []string{"zeros", "text", "incompressible", "mixed"}

// rawSession is one open / WriteBlocks* / Close session against the raw day-directory writer.
type rawSession struct {
	iface  string
	dirTS  int64 // timestamp that selects the day directory
	blocks []model.Block
	enc    encoders.Type
	level  int
	notes  []string // generation notes per block (for traces / signatures)
}

func (s rawSession) String() string {
	var ts []string
	for i, b := range s.blocks {
		ts = append(ts, fmt.Sprintf("%d[%s]", b.TS, s.notes[i]))
	}
	return fmt.Sprintf("session iface=%s day=%d enc=%s level=%d blocks=%s", s.iface, model.DayOf(s.dirTS), s.enc, s.level, strings.Join(ts, " "))
}

// exec runs the session as the writer process; it stops at the first error (as DBWriter does).
func (s rawSession) exec() (accepted int, err error) {
	d := gpfile.NewDirWriter(wdb+"/"+s.iface, s.dirTS, gpfile.WithEncoderTypeLevel(s.enc, s.level))
	if err := d.Open(); err != nil {
		return 0, fmt.Errorf("open: %w", err)
	}
	for i, b := range s.blocks {
		if err := d.WriteBlocks(b.TS, gpfile.TrafficMetadata{NumV4Entries: b.Traffic.V4, NumV6Entries: b.Traffic.V6, NumDrops: b.Traffic.Drops},
			types.Counters{BytesRcvd: b.Counts.BR, BytesSent: b.Counts.BS, PacketsRcvd: b.Counts.PR, PacketsSent: b.Counts.PS}, *b.Raw); err != nil {
			return i, fmt.Errorf("write block %d: %w", i, err)
		}
	}
	if err := d.Close(); err != nil {
		return 0, fmt.Errorf("close: %w", err)
	}
	return len(s.blocks), nil
}

func genPayload(t *sim.Tape, big bool) ([]byte, string) {
	var n int
	switch t.Draw(4) {
	case 0:
		n = t.Draw(64)
	case 1:
		n = t.Draw(9000)
	case 2:
		// just below a power of two: the window in which a buffer of that capacity is larger
		// than the data but smaller than the worst-case compressed size
		n = 1<<(10+t.Draw(8)) - t.Draw(96)
	default:
		n = sim.Pick(t, payloadSizes)
	}
	if !big && n > 20000 {
		n = 20000
	}
	kind := t.Draw(4)
	if kind == 3 {
		// an incompressible first half followed by a compressible second half: the block stays
		// compressed as a whole, but its first part is stored raw inside the compressed frame
		return append(t.Bytes(n/2, 2), t.Bytes(n-n/2, 1)...), fmt.Sprintf("%s:%d", payloadKinds[kind], n)
	}
	return t.Bytes(n, kind), fmt.Sprintf("%s:%d", payloadKinds[kind], n)
}

// genRawBlock draws a raw block with arbitrary column payloads.
func genRawBlock(t *sim.Tape, ts int64, big bool) (model.Block, string) {
	var cols [8][]byte
	var notes []string
	uniform := t.Draw(3) == 0
	var first []byte
	var firstNote string
	for c := range cols {
		if uniform && c > 0 {
			cols[c] = first
			continue
		}
		p, note := genPayload(t, big && c < 2)
		cols[c] = p
		if c == 0 {
			first, firstNote = p, note
		}
		notes = append(notes, note)
	}
	if uniform {
		notes = []string{"all columns " + firstNote}
	}
	b := model.Block{TS: ts, Raw: &cols}
	b.Traffic = model.Traffic{V4: uint64(t.Draw(1000)), V6: uint64(t.Draw(1000)), Drops: uint64(t.Draw(50))}
	b.Counts = model.Counters{BR: model.GenCounter(t), BS: model.GenCounter(t), PR: model.GenCounter(t), PS: model.GenCounter(t)}
	return b, strings.Join(notes, ",")
}

// classify describes what is special about the payloads of a session (canonical, for signatures).
func (s rawSession) classify() string {
	var tags []string
	has := func(sub string) bool {
		for _, n := range s.notes {
			if strings.Contains(n, sub) {
				return true
			}
		}
		return false
	}
	bigInc := false
	for _, b := range s.blocks {
		for _, c := range b.Raw {
			if len(c) > 4096 && isIncompressible(c) {
				bigInc = true
			}
		}
	}
	if bigInc {
		tags = append(tags, "incompressible payload larger than the 4 KiB write buffer")
	} else if has("incompressible") {
		tags = append(tags, "incompressible payload")
	}
	if has(":0") {
		tags = append(tags, "empty column")
	}
	if len(tags) == 0 {
		tags = append(tags, "compressible payloads")
	}
	return fmt.Sprintf("enc=%s, %s", s.enc, strings.Join(tags, ", "))
}

func isIncompressible(b []byte) bool {
	if len(b) < 16 {
		return false
	}
	seen := map[byte]bool{}
	for _, c := range b[:64%len(b)+1] {
		seen[c] = true
	}
	return len(seen) > 8
}

// C01: generated histories of raw write sessions (arbitrary payloads, all encoders and levels,
// several days and interfaces, restart between sessions) and flow-level write-outs; everything
// written is read back after every session with both reader modes and both block orders.
func c01(r *sim.R) *sim.Violation {
	wd := newWorld(r)
	defer simfs.Install(wd.fs)()
	m := model.NewStore()
	nSess := 2 + r.T.Draw(5)
	base := sim.Pick(r.T, startPool)
	ifaces := []string{"eth0", "eth1"}
	nextTS := map[string]int64{}
	big := r.T.Draw(3) == 0
	r.Nontriv = true
	for i := 0; i < nSess; i++ {
		s := rawSession{iface: ifaces[r.T.Draw(2)], enc: sim.Pick(r.T, encPool), level: r.T.Draw(13)}
		ts := nextTS[s.iface]
		if ts == 0 {
			ts = base
		}
		switch r.T.Draw(5) {
		case 0:
			ts += 86400 // next day
		case 1:
			ts -= 86400 * int64(1+r.T.Draw(2)) // an earlier day (sessions interleave over days)
		}
		s.dirTS = ts
		// continue after the last block of that day
		if d := m.Ifaces[s.iface][model.DayOf(ts)]; d != nil && len(d.Blocks) > 0 {
			if last := d.Blocks[len(d.Blocks)-1].TS; ts <= last {
				ts = last + 300
			}
		}
		nb := 1 + r.T.Draw(3)
		if r.T.Chance(1, 10) {
			nb = 0 // a session that opens the day and closes it again without writing a block
		}
		unrepresentable := false
		for j := 0; j < nb; j++ {
			b, note := genRawBlock(r.T, ts, big)
			b.Enc = s.enc.String()
			// summaries at the top of what the format holds per block (32 bits), and - rarely -
			// one beyond it, which the writer has to refuse (what happens then is C03's subject)
			switch r.T.Draw(12) {
			case 0:
				b.Traffic.Drops = 1<<32 - 1 - uint64(r.T.Draw(3))
			case 1:
				b.Traffic.V4, b.Traffic.V6 = 1<<32-1-uint64(r.T.Draw(3)), 1<<31+uint64(r.T.Draw(1000))
			case 2:
				if r.T.Draw(2) == 0 {
					b.Traffic.Drops = 1<<32 + uint64(r.T.Draw(100000))
					unrepresentable = true
				}
			}
			s.blocks = append(s.blocks, b)
			s.notes = append(s.notes, note)
			ts += int64(1 + r.T.Draw(600))
		}
		nextTS[s.iface] = ts
		r.Event("%d: %s", i, s)
		wd.fs.Restart("w")
		var err error
		if p := simfs.RunProc(func() { _, err = s.exec() }); p != nil {
			panic(p)
		}
		if err != nil && unrepresentable {
			r.Probe("unrepresentable_summary_refused")
			return nil // a refused session may leave column data behind: not this property's history any more
		}
		if err != nil {
			if v := r.Report(&sim.Violation{Clause: "session-rejected", Signature: s.classify(), Detail: fmt.Sprintf("%s: %v", s, err)}); v != nil {
				return v
			}
			continue
		}
		m.Touch(s.iface, model.DayOf(s.dirTS))
		for _, b := range s.blocks {
			m.AddTo(s.iface, model.DayOf(s.dirTS), b)
		}
		wd.fs.Restart("r")
		if _, cl, det := wd.CheckStore(m, nil, ""); cl != "" {
			if v := r.Report(&sim.Violation{Clause: cl, Signature: s.classify(), Detail: fmt.Sprintf("after %s:\n%s", s, det)}); v != nil {
				return v
			}
			// the model and the disk disagree from here on (known finding): stop this run
			return nil
		}
		r.Steps += wd.fs.Proc("w").Ops
	}
	// flow-level sessions on top (other interface so that raw blocks do not need decoding)
	hist := genHistory(r.T, 1+r.T.Draw(3), 30)
	for i := range hist {
		wo := &hist[i]
		wo.iface = "flow-" + wo.iface // separate interfaces: raw blocks do not decode as flows
		wo.level = r.T.Draw(13)
		r.Event("flow %d: %s", i, wo)
		wd.fs.Restart("w")
		var err error
		if p := simfs.RunProc(func() { err = wo.exec() }); p != nil {
			panic(p)
		}
		if err != nil {
			return r.Report(&sim.Violation{Clause: "writeout-fails", Signature: "fault-free write-out returns an error", Detail: fmt.Sprintf("%s: %v", wo, err)})
		}
		m.Add(wo.iface, wo.block())
		wd.fs.Restart("r")
		if _, cl, det := wd.CheckStore(m, nil, ""); cl != "" {
			return r.Report(&sim.Violation{Clause: cl, Signature: "flow-level write-out, enc=" + wo.enc.String(), Detail: fmt.Sprintf("after %s:\n%s", wo, det)})
		}
	}
	return nil
}
