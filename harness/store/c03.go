package store

import (
	"context"
	"fmt"
	"runtime"
	"runtime/debug"
	"strings"

	"github.com/els0r/goProbe/v4/pkg/goDB/storage/gpfile"

	"verif/dbcheck"
	"verif/h"
	"verif/model"
	"verif/sim"
	"verif/simfs"
)

// C03 part 1: accepted histories survive reopening; unrepresentable writes are rejected.
// Timestamps come from a clock that jumps: equal, backwards, before the day's first block, a gap
// beyond 2^32 seconds, negative; summaries up to and beyond 2^32-1; counters up to 2^64-1.
func c03(r *sim.R) *sim.Violation {
	wd := newWorld(r)
	defer simfs.Install(wd.fs)()
	m := model.NewStore()
	nSess := 2 + r.T.Draw(4)
	dirTS := sim.Pick(r.T, startPool)
	last := int64(0)
	first := int64(0)
	r.Nontriv = true
	for i := 0; i < nSess; i++ {
		s := rawSession{iface: "eth0", dirTS: dirTS, enc: sim.Pick(r.T, encPool)}
		nb := 1 + r.T.Draw(3)
		// one session in three is a flow-level write-out through the real DBWriter (the way the
		// capture writes; the day directory is chosen from the block timestamp)
		var wo *writeout
		if r.T.Draw(3) == 0 {
			nb = 1
			wo = &writeout{iface: "eth0", enc: s.enc, level: r.T.Draw(3)}
		}
		var kinds []string
		for j := 0; j < nb; j++ {
			ts := last + 300
			kind := "monotone"
			if last == 0 {
				ts = dirTS + 5
			}
			switch r.T.Draw(12) {
			case 1:
				if last != 0 {
					ts, kind = last, "equal to the previous block"
				}
			case 2:
				if last != 0 {
					ts, kind = last-int64(1+r.T.Draw(1000)), "earlier than the previous block"
				}
			case 3:
				if first != 0 {
					ts, kind = first-int64(1+r.T.Draw(100000)), "earlier than the first block of the day"
				}
			case 4:
				ts, kind = last+int64(1)<<32+int64(r.T.Draw(1000)), "gap of more than 2^32 seconds"
			case 5:
				ts, kind = last+int64(1)<<32-1, "gap of exactly 2^32-1 seconds"
			case 6:
				if last == 0 {
					ts, kind = -int64(1+r.T.Draw(100000)), "negative first timestamp"
				}
			}
			if wo != nil {
				wo.ts = ts
				wo.flows = model.GenFlows(r.T, 6, true)
				kind = "write-out through DBWriter, " + kind
				switch r.T.Draw(8) {
				case 1:
					wo.drops, kind = 1<<32-1, kind+", drop count 2^32-1"
				case 2:
					wo.drops, kind = 1<<32+uint64(r.T.Draw(5)), kind+", drop count beyond 2^32-1"
				case 3:
					wo.drops = uint64(r.T.Draw(1000))
				}
				kinds = append(kinds, kind)
				if !strings.Contains(kind, "equal") && !strings.Contains(kind, "earlier") {
					if ts > last || last == 0 {
						last = ts
					}
				}
				if first == 0 {
					first = ts
				}
				continue
			}
			b, _ := genRawBlock(r.T, ts, false)
			switch r.T.Draw(10) {
			case 1:
				b.Traffic.V4, kind = 1<<32-1, kind+", flow count 2^32-1"
			case 2:
				b.Traffic.V6, kind = 1<<32+uint64(r.T.Draw(5)), kind+", flow count beyond 2^32-1"
			case 3:
				b.Traffic.Drops, kind = 1<<32+uint64(r.T.Draw(5)), kind+", drop count beyond 2^32-1"
			case 4:
				b.Counts.BR, kind = 1<<64-1-uint64(r.T.Draw(3)), kind+", counter near 2^64"
			}
			s.blocks = append(s.blocks, b)
			s.notes = append(s.notes, kind)
			kinds = append(kinds, kind)
			if !strings.Contains(kind, "equal") && !strings.Contains(kind, "earlier") {
				// the harness clock continues from the latest stamp it handed out
				if ts > last || last == 0 {
					last = ts
				}
			}
			if first == 0 {
				first = ts
			}
		}
		wd.fs.Restart("w")
		var err error
		what := s.String()
		day := model.DayOf(s.dirTS)
		if wo != nil {
			what, day = wo.String(), model.DayOf(wo.ts)
			r.Event("%d: %s", i, what)
			if p := simfs.RunProc(func() { err = wo.exec() }); p != nil {
				panic(p)
			}
		} else {
			r.Event("%d: %s", i, s)
			if p := simfs.RunProc(func() { _, err = s.exec() }); p != nil {
				panic(p)
			}
		}
		sig := strings.Join(dedup(kinds), " | ")
		want := m
		if err == nil {
			want = m.Clone()
			if wo != nil {
				want.Add(wo.iface, wo.block())
				r.Probe("writeout_accepted")
			}
			for _, b := range s.blocks {
				want.AddTo(s.iface, model.DayOf(s.dirTS), b)
			}
			r.Probe("session_accepted")
		} else {
			r.Probe("session_rejected")
			if wo != nil {
				r.Probe("writeout_rejected")
			}
		}
		wd.fs.Restart("r")
		if err != nil {
			// the directory of a day whose first session was rejected stays (without metadata)
			wd.EmptyDayOK += fmt.Sprintf(";%s/%d;", s.iface, day)
		}
		if _, cl, det := wd.CheckStore(want, nil, ""); cl != "" {
			clause := "accepted-but-stored-altered"
			if err != nil {
				clause = "rejected-but-changed-the-day"
			}
			if v := r.Report(&sim.Violation{Clause: clause, Signature: sig, Detail: fmt.Sprintf("%s\nsession returned: %v\nreopened day (%s): %s", what, err, cl, det)}); v != nil {
				return v
			}
			return nil // disk and model disagree from here on (known finding)
		}
		// wrap-around totals are not representable either: they must not be accepted silently
		m = want
		// re-sync the harness clock with what is stored
		if d := m.Ifaces["eth0"][model.DayOf(dirTS)]; d != nil && len(d.Blocks) > 0 {
			last = d.Blocks[len(d.Blocks)-1].TS
			first = d.Blocks[0].TS
		}
	}
	return malformedMetadata(r, wd, m, dirTS)
}

func dedup(xs []string) []string {
	seen := map[string]bool{}
	var out []string
	for _, x := range xs {
		if !seen[x] {
			seen[x] = true
			out = append(out, x)
		}
	}
	return out
}

// C03 part 2: truncated or malformed metadata files are reported as errors, never as a crash.
// Sources: every prefix of the real .blockmeta (what a torn metadata write would leave) and
// seeded damage of the real file.
func malformedMetadata(r *sim.R, wd *world, m *model.Store, dirTS int64) *sim.Violation {
	names := dbcheck.DayDirNames(wd.fs, tree, rel, "eth0", model.DayOf(dirTS))
	if len(names) != 1 {
		return nil
	}
	metaPath := dayPath("eth0", dirTS, names[0]) + "/.blockmeta"
	orig, ok := wd.fs.ReadRaw(tree, metaPath)
	if !ok {
		return nil
	}
	var variants [][]byte
	var descr []string
	add := func(b []byte, d string) { variants = append(variants, b); descr = append(descr, d) }
	cuts := []int{0, 1, 7, 8, 15, 16, 71, 72, 73, 135, 136, 143, 144, 145, len(orig) - 1, len(orig) - 9, len(orig) - 16, len(orig) - 17}
	if h.Thorough() {
		// every prefix of a small metadata file; of a larger one the first 160 and the last 40
		// bytes and 200 drawn positions (a run has to stay within minutes: every variant is fed
		// to five reader entry points)
		if len(orig) <= 400 {
			for c := 0; c < len(orig); c++ {
				cuts = append(cuts, c)
			}
		} else {
			for c := 0; c < 160; c++ {
				cuts = append(cuts, c, len(orig)-1-c%40)
			}
			for k := 0; k < 200; k++ {
				cuts = append(cuts, r.T.Draw(len(orig)))
			}
		}
	} else {
		for k := 0; k < 12; k++ {
			cuts = append(cuts, r.T.Draw(len(orig)))
		}
	}
	seenCut := map[int]bool{}
	for _, c := range cuts {
		if c < 0 || c >= len(orig) || seenCut[c] {
			continue
		}
		seenCut[c] = true
		add(append([]byte(nil), orig[:c]...), fmt.Sprintf("truncated to %d of %d bytes", c, len(orig)))
	}
	nDamage := 12
	if h.Thorough() {
		nDamage = 60
	}
	for k := 0; k < nDamage; k++ {
		b := append([]byte(nil), orig...)
		switch r.T.Draw(5) {
		case 0: // bit flips
			n := 1 + r.T.Draw(4)
			for j := 0; j < n; j++ {
				b[r.T.Draw(len(b))] ^= 1 << uint(r.T.Draw(8))
			}
			add(b, "bit flips")
		case 1: // block count field
			nb := uint64(len(m.Ifaces["eth0"][model.DayOf(dirTS)].Blocks))
			// fixed values, one more than the true count, the true count with one flipped bit, the
			// true count plus a multiple of 2^61 (products with the per-block size wrap around)
			v := []uint64{0, 1, 1 << 20, 1 << 40, 1<<64 - 1, nb + 1, nb ^ 1<<uint(r.T.Draw(64)), nb ^ 1<<uint(56+r.T.Draw(8)), nb + uint64(1+r.T.Draw(7))<<61}[r.T.Draw(9)]
			for j := 0; j < 8; j++ {
				b[8+j] = byte(v >> uint(56-8*j))
			}
			add(b, fmt.Sprintf("block count field set to %d", v))
		case 2: // garbage range
			a := r.T.Draw(len(b))
			g := r.T.Bytes(1+r.T.Draw(64), 2)
			copy(b[a:], g)
			add(b, "garbage range")
		case 3: // appended bytes
			add(append(b, r.T.Bytes(1+r.T.Draw(100), 2)...), "trailing garbage")
		default: // length fields of a block descriptor blown up
			if len(b) > 90 {
				for j := 80; j < 88; j++ {
					b[j] = 0xff
				}
			}
			add(b, "block length fields 0xffffffff")
		}
	}
	bigClamps := 0
	for i, v := range variants {
		// the reader allocates twice the declared length before it reads a byte (the known
		// excessive-allocation finding): two variants per run keep length fields of up to 256 MiB
		// so that the finding stays visible, the others are clamped to 4 MiB (a run would
		// otherwise spend minutes zeroing memory)
		probe := append([]byte(nil), v...)
		if bigClamps < 2 && clampMetaLens(probe, 1<<22) {
			bigClamps++
			if clampMetaLens(v, 1<<28) {
				descr[i] += " (length fields clamped to 256 MiB)"
			}
		} else if clampMetaLens(v, 1<<22) {
			descr[i] += " (length fields clamped to 4 MiB)"
		}
		wd.fs.WriteRaw(tree, metaPath, v)
		wd.fs.Restart("r")
		r.Fault("malformed-metadata")
		r.Event("  metadata variant: %s", descr[i])
		what := descr[i]
		if strings.HasPrefix(what, "truncated") {
			what = "truncated metadata"
		}
		for _, probe := range []struct {
			name string
			fn   func() error
		}{
			{"open and read the day", func() error {
				_, err := dbcheck.ReadDay(rdb+"/eth0", model.DayOf(dirTS), names[0], 0, 0)
				return err
			}},
			{"open and read the day (read-all mode)", func() error {
				_, err := dbcheck.ReadDay(rdb+"/eth0", model.DayOf(dirTS), names[0], 1, 1)
				return err
			}},
			{"interface summary", func() error { _, err := dbcheck.Listing(rdb, "eth0", 1, 4102444800); return err }},
			{"summary of a sub-range", func() error { _, err := dbcheck.Listing(rdb, "eth0", dirTS+400, dirTS+900); return err }},
			{"query", func() error {
				_, err := dbcheck.Query(context.Background(), rdb, dbcheck.FullArgs("eth0", 1, 4102444800))
				return err
			}},
			{"day reader via writer path (append session)", func() error {
				d := gpfile.NewDirWriter(rdb+"/eth0", dirTS)
				if err := d.Open(); err != nil {
					return err
				}
				return nil // not closed: nothing is written back
			}},
		} {
			var perr any
			var stack []byte
			var ms0, ms1 runtime.MemStats
			runtime.ReadMemStats(&ms0)
			func() {
				defer func() {
					if p := recover(); p != nil {
						perr, stack = p, debug.Stack()
					}
				}()
				_ = probe.fn()
			}()
			runtime.ReadMemStats(&ms1)
			if grown := ms1.TotalAlloc - ms0.TotalAlloc; grown > 128<<20 {
				r.Probe("excessive_allocation")
				if v := r.Report(&sim.Violation{Clause: "excessive-allocation-on-malformed-metadata", Signature: "declared block length far beyond the size of the column file",
					Detail: fmt.Sprintf(".blockmeta %s; %s allocated %d MiB while the whole database is %d bytes", descr[i], probe.name, grown>>20, dbBytes(wd))}); v != nil {
					return v
				}
			}
			if perr != nil {
				fn := panicSite(stack)
				if strings.HasPrefix(fn, "verif/") {
					panic(perr)
				}
				if v := r.Report(&sim.Violation{Clause: "crash-on-malformed-metadata", Signature: fmt.Sprintf("%s: panic in %s", what, fn),
					Detail: fmt.Sprintf(".blockmeta %s; %s panicked: %v\n%s", descr[i], probe.name, perr, clipStack(stack))}); v != nil {
					return v
				}
			}
		}
	}
	wd.fs.WriteRaw(tree, metaPath, orig)
	return nil
}

func dbBytes(wd *world) int {
	n := 0
	for _, f := range wd.fs.Files(tree, rel) {
		b, _ := wd.fs.ReadRaw(tree, f)
		n += len(b)
	}
	return n
}

// clampMetaLens bounds the length fields of (possibly damaged) metadata: the reader allocates
// twice the declared length before it reads, so a declared 4 GiB block costs 8 GiB per probe.
// Lengths above max are reduced to max (keeping the low bits). Layout per database_format.md:
// 72-byte header (block count at [8:16]), then per column an 8-byte offset and nBlocks descriptors
// of 9 bytes (len u32, raw len u32, encoder u8).
func clampMetaLens(b []byte, max uint32) (clamped bool) {
	if len(b) < 16 {
		return false
	}
	n := uint64(0)
	for j := 8; j < 16; j++ {
		n = n<<8 | uint64(b[j])
	}
	pos := 72
	for c := 0; c < 8; c++ {
		pos += 8
		for k := uint64(0); k < n; k++ {
			if pos+9 > len(b) {
				return clamped
			}
			for _, o := range []int{pos, pos + 4} {
				v := uint32(b[o])<<24 | uint32(b[o+1])<<16 | uint32(b[o+2])<<8 | uint32(b[o+3])
				if v > max {
					v = max | v&0xffff
					b[o], b[o+1], b[o+2], b[o+3] = byte(v>>24), byte(v>>16), byte(v>>8), byte(v)
					clamped = true
				}
			}
			pos += 9
		}
	}
	return clamped
}

func panicSite(stack []byte) string {
	lines := strings.Split(string(stack), "\n")
	seen := false
	for _, l := range lines {
		if strings.HasPrefix(l, "panic(") {
			seen = true
			continue
		}
		if !seen || strings.HasPrefix(l, "\t") || l == "" || strings.HasPrefix(l, "runtime.") {
			continue
		}
		if i := strings.LastIndex(l, "("); i > 0 {
			return l[:i]
		}
		return l
	}
	return "unknown"
}

func clipStack(s []byte) string {
	lines := strings.Split(string(s), "\n")
	if len(lines) > 30 {
		lines = lines[:30]
	}
	return strings.Join(lines, "\n")
}
