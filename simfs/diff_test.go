package simfs

import (
	"bytes"
	"errors"
	"fmt"
	"io"
	"io/fs"
	"os"
	"path/filepath"
	"sort"
	"strconv"
	"strings"
	"syscall"
	"testing"
)

// TestDiffKernel applies seeded sequences of the operation vocabulary goProbe uses to simfs and to
// the real kernel (a temp directory) and compares every result, errno, listing and file content.

type rng struct{ s uint64 }

func (r *rng) n(n int) int {
	r.s += 0x9e3779b97f4a7c15
	z := r.s
	z = (z ^ (z >> 30)) * 0xbf58476d1ce4e5b9
	z = (z ^ (z >> 27)) * 0x94d049bb133111eb
	z ^= z >> 31
	return int(z % uint64(n))
}

func errClass(err error) string {
	if err == nil {
		return "ok"
	}
	if err == io.EOF {
		return "EOF"
	}
	if errors.Is(err, fs.ErrClosed) {
		return "closed"
	}
	var en syscall.Errno
	if errors.As(err, &en) {
		return "errno:" + strconv.Itoa(int(en))
	}
	return "err:" + err.Error()
}

type realH struct{ f *os.File }

func TestDiffKernel(t *testing.T) {
	seqs := 300
	if v := os.Getenv("VERIF_DIFF_SEQS"); v != "" {
		seqs, _ = strconv.Atoi(v)
	}
	seed := uint64(1)
	if v := os.Getenv("VERIF_SEED"); v != "" {
		s, _ := strconv.ParseInt(v, 10, 64)
		seed = uint64(s)
	}
	names := []string{"a", "b", "c", "a/x", "a/y", "b/x", "a/x/p", "a/x/q", "b/x/p", "c/z"}
	for s := 0; s < seqs; s++ {
		r := &rng{s: seed*1000003 + uint64(s)}
		realRoot := t.TempDir()
		f := New()
		f.Mount("m", "t")
		restore := Install(f)
		simRoot := "/sim/m"
		var sh []*File
		var rh []*os.File
		var log []string
		fail := func(format string, a ...any) {
			restore()
			t.Fatalf("sequence %d diverged: %s\nops:\n%s", s, fmt.Sprintf(format, a...), strings.Join(log, "\n"))
		}
		cmpErr := func(what string, e1, e2 error) bool {
			c1, c2 := errClass(e1), errClass(e2)
			if c1 != c2 {
				fail("%s: simfs %s (%v) vs kernel %s (%v)", what, c1, e1, c2, e2)
			}
			return e1 == nil
		}
		nOps := 5 + r.n(40)
		for i := 0; i < nOps; i++ {
			p := names[r.n(len(names))]
			q := names[r.n(len(names))]
			sp, rp := simRoot+"/"+p, filepath.Join(realRoot, p)
			sq, rq := simRoot+"/"+q, filepath.Join(realRoot, q)
			switch op := r.n(17); op {
			case 0:
				log = append(log, "mkdir "+p)
				cmpErr("mkdir "+p, Mkdir(sp, 0o755), os.Mkdir(rp, 0o755))
			case 1:
				log = append(log, "mkdirall "+p)
				cmpErr("mkdirall "+p, MkdirAll(sp, 0o755), os.MkdirAll(rp, 0o755))
			case 2, 3:
				flags := []int{os.O_RDONLY, os.O_WRONLY | os.O_CREATE, os.O_RDWR | os.O_CREATE, os.O_WRONLY | os.O_CREATE | os.O_TRUNC, os.O_RDWR | os.O_CREATE | os.O_EXCL, os.O_WRONLY, os.O_RDWR, os.O_WRONLY | os.O_CREATE | os.O_APPEND}[r.n(8)]
				log = append(log, fmt.Sprintf("open %s flags=%#x", p, flags))
				h1, e1 := OpenFile(sp, flags, 0o644)
				h2, e2 := os.OpenFile(rp, flags, 0o644)
				if cmpErr("open "+p, e1, e2) {
					if len(sh) < 6 {
						sh = append(sh, h1)
						rh = append(rh, h2)
					} else {
						h1.Close()
						h2.Close()
					}
				}
			case 4:
				if len(sh) == 0 {
					continue
				}
				k := r.n(len(sh))
				n := r.n(5000)
				if r.n(3) == 0 {
					n = r.n(10)
				}
				data := make([]byte, n)
				for j := range data {
					data[j] = byte(r.n(256))
				}
				log = append(log, fmt.Sprintf("write h%d %d bytes", k, n))
				n1, e1 := sh[k].Write(data)
				n2, e2 := rh[k].Write(data)
				cmpErr("write", e1, e2)
				if n1 != n2 {
					fail("write count %d vs %d", n1, n2)
				}
			case 5:
				if len(sh) == 0 {
					continue
				}
				k := r.n(len(sh))
				n := r.n(6000)
				log = append(log, fmt.Sprintf("read h%d %d bytes", k, n))
				b1, b2 := make([]byte, n), make([]byte, n)
				n1, e1 := sh[k].Read(b1)
				n2, e2 := rh[k].Read(b2)
				if fi, err := rh[k].Stat(); err == nil && fi.IsDir() {
					continue // reading directory handles is not used by goProbe
				}
				cmpErr("read", e1, e2)
				if n1 != n2 || !bytes.Equal(b1[:n1], b2[:n2]) {
					fail("read result %d vs %d bytes / content differs", n1, n2)
				}
			case 6:
				if len(sh) == 0 {
					continue
				}
				k := r.n(len(sh))
				off := int64(r.n(8000))
				wh := r.n(3)
				if wh != 0 && r.n(2) == 0 {
					off = -off
				}
				log = append(log, fmt.Sprintf("seek h%d %d whence %d", k, off, wh))
				p1, e1 := sh[k].Seek(off, wh)
				p2, e2 := rh[k].Seek(off, wh)
				if fi, err := rh[k].Stat(); err == nil && fi.IsDir() {
					continue // seeking directories is not used by goProbe and differs by kernel
				}
				cmpErr("seek", e1, e2)
				if e1 == nil && p1 != p2 {
					fail("seek pos %d vs %d", p1, p2)
				}
			case 7:
				if len(sh) == 0 {
					continue
				}
				k := r.n(len(sh))
				log = append(log, fmt.Sprintf("close h%d", k))
				cmpErr("close", sh[k].Close(), rh[k].Close())
				sh = append(sh[:k], sh[k+1:]...)
				rh = append(rh[:k], rh[k+1:]...)
			case 8, 9:
				log = append(log, "rename "+p+" -> "+q)
				cmpErr("rename "+p+" -> "+q, Rename(sp, sq), os.Rename(rp, rq))
			case 10:
				log = append(log, "remove "+p)
				cmpErr("remove "+p, Remove(sp), os.Remove(rp))
			case 11:
				log = append(log, "removeall "+p)
				cmpErr("removeall "+p, RemoveAll(sp), os.RemoveAll(rp))
			case 12:
				log = append(log, "readdir "+p)
				d1, e1 := ReadDir(sp)
				d2, e2 := os.ReadDir(rp)
				if errClass(e1) != errClass(e2) {
					// os.ReadDir on a regular file: ENOTDIR in both; compare classes only
					fail("readdir %s: %v vs %v", p, e1, e2)
				}
				if e1 == nil {
					if len(d1) != len(d2) {
						fail("readdir %s: %d vs %d entries", p, len(d1), len(d2))
					}
					for j := range d1 {
						if d1[j].Name() != d2[j].Name() || d1[j].IsDir() != d2[j].IsDir() {
							fail("readdir %s entry %d: %s/%v vs %s/%v", p, j, d1[j].Name(), d1[j].IsDir(), d2[j].Name(), d2[j].IsDir())
						}
					}
				}
			case 13:
				log = append(log, "stat "+p)
				i1, e1 := Stat(sp)
				i2, e2 := os.Stat(rp)
				if cmpErr("stat "+p, e1, e2) {
					if i1.IsDir() != i2.IsDir() || (!i1.IsDir() && i1.Size() != i2.Size()) || i1.Mode().Perm() != i2.Mode().Perm() {
						fail("stat %s: dir %v/%v size %d/%d perm %v/%v", p, i1.IsDir(), i2.IsDir(), i1.Size(), i2.Size(), i1.Mode().Perm(), i2.Mode().Perm())
					}
				}
			case 14:
				log = append(log, "readfile "+p)
				b1, e1 := ReadFile(sp)
				b2, e2 := os.ReadFile(rp)
				if cmpErr("readfile "+p, e1, e2) && !bytes.Equal(b1, b2) {
					fail("readfile %s: contents differ (%d vs %d bytes)", p, len(b1), len(b2))
				}
			case 15:
				mode := []fs.FileMode{0o600, 0o644, 0o755, 0o400 | 0o200}[r.n(4)]
				log = append(log, fmt.Sprintf("chmod %s %v", p, mode))
				cmpErr("chmod "+p, Chmod(sp, mode), os.Chmod(rp, mode))
			case 16:
				data := []byte(strings.Repeat("w", r.n(300)))
				log = append(log, fmt.Sprintf("writefile %s %d", p, len(data)))
				cmpErr("writefile "+p, WriteFile(sp, data, 0o644), os.WriteFile(rp, data, 0o644))
			}
		}
		for k := range sh {
			sh[k].Close()
			rh[k].Close()
		}
		// compare the trees
		var realList []string
		_ = filepath.WalkDir(realRoot, func(p string, d fs.DirEntry, err error) error {
			if err != nil || p == realRoot {
				return nil
			}
			relp := strings.TrimPrefix(p, realRoot)
			if d.IsDir() {
				realList = append(realList, relp+"/")
			} else {
				b, _ := os.ReadFile(p)
				realList = append(realList, fmt.Sprintf("%s:%d:%x", relp, len(b), fnv64(b)))
			}
			return nil
		})
		sort.Strings(realList)
		var simList []string
		for _, e := range f.Walk("t") {
			if strings.HasSuffix(e, "/") {
				simList = append(simList, e)
				continue
			}
			pth := e[:strings.LastIndexByte(e, ':')]
			b, _ := f.ReadRaw("t", pth)
			simList = append(simList, fmt.Sprintf("%s:%d:%x", pth, len(b), fnv64(b)))
		}
		sort.Strings(simList)
		if strings.Join(realList, "\n") != strings.Join(simList, "\n") {
			fail("final trees differ:\nkernel:\n%s\nsimfs:\n%s", strings.Join(realList, "\n"), strings.Join(simList, "\n"))
		}
		// the two tree walkers visit the same entries in the same order as the standard library
		// (including SkipDir on a drawn directory)
		skip := names[r.n(len(names))]
		var w1, w2, w3, w4 []string
		_ = filepath.WalkDir(realRoot, func(p string, d fs.DirEntry, err error) error {
			w1 = append(w1, fmt.Sprintf("%s dir=%v err=%v", strings.TrimPrefix(p, realRoot), d != nil && d.IsDir(), err != nil))
			if strings.TrimPrefix(p, realRoot) == "/"+skip {
				return filepath.SkipDir
			}
			return nil
		})
		_ = WalkDir(simRoot, func(p string, d fs.DirEntry, err error) error {
			w2 = append(w2, fmt.Sprintf("%s dir=%v err=%v", strings.TrimPrefix(p, simRoot), d != nil && d.IsDir(), err != nil))
			if strings.TrimPrefix(p, simRoot) == "/"+skip {
				return filepath.SkipDir
			}
			return nil
		})
		_ = filepath.Walk(realRoot, func(p string, i fs.FileInfo, err error) error {
			w3 = append(w3, fmt.Sprintf("%s dir=%v err=%v", strings.TrimPrefix(p, realRoot), i != nil && i.IsDir(), err != nil))
			if strings.TrimPrefix(p, realRoot) == "/"+skip && i.IsDir() {
				return filepath.SkipDir
			}
			return nil
		})
		_ = Walk(simRoot, func(p string, i fs.FileInfo, err error) error {
			w4 = append(w4, fmt.Sprintf("%s dir=%v err=%v", strings.TrimPrefix(p, simRoot), i != nil && i.IsDir(), err != nil))
			if strings.TrimPrefix(p, simRoot) == "/"+skip && i.IsDir() {
				return filepath.SkipDir
			}
			return nil
		})
		if strings.Join(w1, "\n") != strings.Join(w2, "\n") {
			fail("WalkDir differs (skip %s):\nkernel:\n%s\nsimfs:\n%s", skip, strings.Join(w1, "\n"), strings.Join(w2, "\n"))
		}
		if strings.Join(w3, "\n") != strings.Join(w4, "\n") {
			fail("Walk differs (skip %s):\nkernel:\n%s\nsimfs:\n%s", skip, strings.Join(w3, "\n"), strings.Join(w4, "\n"))
		}
		restore()
	}
}
