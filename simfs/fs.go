// Package simfs is the simulated disk: an in-memory POSIX-like tree behind the same function and
// method signatures goProbe uses from package os. The rewrite tool (verif/rewrite) redirects
// os.X -> simfs.X and *os.File -> *simfs.File in the packages under simulation.
//
// Paths below /sim/<mount>/ are simulated; every other path is passed through to the real os
// package read-only (a mutating call outside a mount panics with HarnessError).
package simfs

import (
	"fmt"
	"io/fs"
	"path"
	"runtime"
	"runtime/debug"
	"sort"
	"strings"
	"sync"
	"sync/atomic"
	"syscall"
	"time"
)

// Root is the path prefix of all simulated mounts.
const Root = "/sim/"

// HarnessError is panicked for conditions that mean the harness (not goProbe) is broken.
type HarnessError struct{ Msg string }

func (e HarnessError) Error() string { return "simfs harness error: " + e.Msg }

type inode struct {
	id   int
	dir  bool
	data []byte
	mode fs.FileMode
	ents map[string]*inode
}

func (n *inode) clone(m map[*inode]*inode) *inode {
	if c, ok := m[n]; ok {
		return c
	}
	c := &inode{id: n.id, dir: n.dir, mode: n.mode}
	m[n] = c
	if n.dir {
		c.ents = make(map[string]*inode, len(n.ents))
		for k, v := range n.ents {
			c.ents[k] = v.clone(m)
		}
	} else {
		c.data = append([]byte(nil), n.data...)
	}
	return c
}

// OpKind enumerates the file-system operations (system-call granularity).
type OpKind string

// Operation kinds.
const (
	OpOpen     OpKind = "open"
	OpCreate   OpKind = "create" // open with O_CREATE (may create) / CreateTemp
	OpRead     OpKind = "read"
	OpWrite    OpKind = "write"
	OpSeek     OpKind = "seek"
	OpClose    OpKind = "close"
	OpStat     OpKind = "stat"
	OpReadDir  OpKind = "readdir"
	OpMkdir    OpKind = "mkdir"
	OpRename   OpKind = "rename"
	OpRemove   OpKind = "remove"
	OpChmod    OpKind = "chmod"
	OpTruncate OpKind = "truncate"
	OpReadFile OpKind = "readfile"
)

// Mutating reports whether the kind can change the disk.
func (k OpKind) Mutating() bool {
	switch k {
	case OpCreate, OpWrite, OpMkdir, OpRename, OpRemove, OpChmod, OpTruncate:
		return true
	}
	return false
}

// Op describes one operation about to be executed.
type Op struct {
	Proc  *Proc
	Index int // index among all ops of the process (0-based)
	MutIx int // index among mutating ops of the process (0-based), -1 if not mutating
	Kind  OpKind
	Path  string // path relative to the tree ("/db/eth0/...")
	Path2 string
	N     int // byte count for read/write
}

func (o *Op) String() string {
	s := fmt.Sprintf("%s#%d %s %s", o.Proc.Name, o.Index, o.Kind, o.Path)
	if o.Path2 != "" {
		s += " -> " + o.Path2
	}
	if o.Kind == OpWrite || o.Kind == OpRead {
		s += fmt.Sprintf(" [%d]", o.N)
	}
	return s
}

// ActionKind says what the fault plan wants for an op.
type ActionKind int

// Actions.
const (
	Proceed  ActionKind = iota
	Fail                // return Errno, operation not executed
	Partial             // write: first Bytes bytes land, Errno returned
	Kill                // process killed before the operation
	TornKill            // write: first Bytes bytes land, then the process is killed
)

// Action is a fault decision.
type Action struct {
	Kind  ActionKind
	Errno syscall.Errno
	Bytes int
}

// Plan decides the fate of each op of a process. It runs under the FS lock and must not block.
type Plan func(op *Op) Action

// Proc is a simulated OS process, identified by the mount alias its paths go through.
type Proc struct {
	Name     string
	tree     string
	Ops      int
	MutOps   int
	Frozen   bool // killed: the disk no longer accepts operations from it
	Plan     Plan
	ReadOnly bool     // mutating ops are recorded in FS.ROViolations (and still executed)
	Log      []string // op log (when FS.LogOps)
	Killed   bool
}

// FS is one simulated disk.
type FS struct {
	mu      sync.Mutex
	trees   map[string]*inode
	procs   map[string]*Proc
	nextIno int
	tmpSeq  uint64
	kills   atomic.Int64

	// Yield, when set, is called before each operation outside the lock. The scheduler parks the
	// calling goroutine there.
	Yield func(op *Op)
	// OnOp, when set, is called under the lock after an op executed (for event logs).
	OnOp func(op *Op, err error)
	// OnFault is called when a fault fires.
	OnFault func(kind string, op *Op)

	LogOps       bool
	ROViolations []string
	ShortReads   func(op *Op) int // optional: max bytes returned by this read (0 = no limit)
}

// New creates an empty disk.
func New() *FS {
	return &FS{trees: map[string]*inode{}, procs: map[string]*Proc{}}
}

var (
	curMu sync.RWMutex
	cur   *FS
)

// Install makes f the disk behind the package-level functions. Returns a restore function.
func Install(f *FS) func() {
	curMu.Lock()
	old := cur
	cur = f
	curMu.Unlock()
	return func() { curMu.Lock(); cur = old; curMu.Unlock() }
}

func current() *FS {
	curMu.RLock()
	defer curMu.RUnlock()
	return cur
}

// Mount registers mount alias -> tree (created when missing) and returns its process.
func (f *FS) Mount(alias, tree string) *Proc {
	f.mu.Lock()
	defer f.mu.Unlock()
	if _, ok := f.trees[tree]; !ok {
		f.nextIno++
		f.trees[tree] = &inode{id: f.nextIno, dir: true, mode: fs.ModeDir | 0o755, ents: map[string]*inode{}}
	}
	p := &Proc{Name: alias, tree: tree}
	f.procs[alias] = p
	return p
}

// Proc returns the process of a mount alias.
func (f *FS) Proc(alias string) *Proc {
	f.mu.Lock()
	defer f.mu.Unlock()
	return f.procs[alias]
}

// Restart revives a (killed) process identity with fresh counters: a new OS process using the same
// mount. User-space state is the caller's business (construct fresh objects).
func (f *FS) Restart(alias string) *Proc {
	f.mu.Lock()
	defer f.mu.Unlock()
	old := f.procs[alias]
	p := &Proc{Name: alias, tree: old.tree, ReadOnly: old.ReadOnly}
	f.procs[alias] = p
	return p
}

// Snapshot is a deep copy of all trees.
type Snapshot struct {
	trees   map[string]*inode
	nextIno int
	tmpSeq  uint64
}

// Snapshot copies the disk state.
func (f *FS) Snapshot() *Snapshot {
	f.mu.Lock()
	defer f.mu.Unlock()
	s := &Snapshot{trees: map[string]*inode{}, nextIno: f.nextIno, tmpSeq: f.tmpSeq}
	m := map[*inode]*inode{}
	for k, v := range f.trees {
		s.trees[k] = v.clone(m)
	}
	return s
}

// Restore replaces the disk state with a copy of s (open handles of earlier processes keep
// pointing at the old inodes, as handles of dead processes would).
func (f *FS) Restore(s *Snapshot) {
	f.mu.Lock()
	defer f.mu.Unlock()
	m := map[*inode]*inode{}
	f.trees = map[string]*inode{}
	for k, v := range s.trees {
		f.trees[k] = v.clone(m)
	}
	f.nextIno = s.nextIno
	f.tmpSeq = s.tmpSeq
}

// split resolves "/sim/<alias>/rest" to (proc, "/rest"). ok=false for non-simulated paths.
func (f *FS) split(p string) (*Proc, string, bool) {
	p = path.Clean(p)
	if !strings.HasPrefix(p+"/", Root) {
		return nil, "", false
	}
	rest := p[len(Root):]
	alias := rest
	sub := "/"
	if i := strings.IndexByte(rest, '/'); i >= 0 {
		alias, sub = rest[:i], rest[i:]
	}
	pr := f.procs[alias]
	if pr == nil {
		panic(HarnessError{"path under unknown mount: " + p})
	}
	return pr, sub, true
}

func errno(op, p string, e syscall.Errno) error { return &fs.PathError{Op: op, Path: p, Err: e} }

// lookup walks sub ("/a/b") in tree; returns parent dir inode, final name, inode (nil if missing).
func (f *FS) lookup(tree *inode, sub string) (parent *inode, name string, n *inode, err syscall.Errno) {
	if sub == "/" || sub == "" {
		return nil, "", tree, 0
	}
	parts := strings.Split(strings.Trim(sub, "/"), "/")
	curN := tree
	for i, part := range parts {
		if !curN.dir {
			return nil, "", nil, syscall.ENOTDIR
		}
		next := curN.ents[part]
		if i == len(parts)-1 {
			return curN, part, next, 0
		}
		if next == nil {
			return nil, "", nil, syscall.ENOENT
		}
		curN = next
	}
	return nil, "", nil, syscall.ENOENT
}

// begin performs the bookkeeping common to all operations: yield, frozen check, counting, fault
// plan. It returns with f.mu HELD when proceed is true or when act.Kind is Partial/TornKill (the
// caller applies the partial effect and then calls finishKill / unlocks).
func (f *FS) begin(p *Proc, kind OpKind, sub, sub2 string, n int) (op *Op, act Action, err error) {
	op = &Op{Proc: p, Kind: kind, Path: sub, Path2: sub2, N: n, MutIx: -1}
	if y := f.Yield; y != nil {
		f.mu.Lock()
		frozen := p.Frozen
		op.Index = p.Ops // provisional, for the scheduler's key
		f.mu.Unlock()
		if !frozen {
			y(op)
		}
	}
	f.mu.Lock()
	if p.Frozen {
		f.mu.Unlock()
		return op, Action{}, errno(string(kind), sub, syscall.EIO)
	}
	op.Index = p.Ops
	p.Ops++
	if kind.Mutating() {
		op.MutIx = p.MutOps
		p.MutOps++
		if p.ReadOnly {
			f.ROViolations = append(f.ROViolations, op.String())
		}
	}
	if f.LogOps {
		p.Log = append(p.Log, op.String())
	}
	if p.Plan != nil {
		act = p.Plan(op)
	}
	switch act.Kind {
	case Fail:
		if f.OnFault != nil {
			f.OnFault("errno:"+string(kind), op)
		}
		if f.LogOps {
			p.Log = append(p.Log, fmt.Sprintf("  FAULT %v", act.Errno))
		}
		if f.OnOp != nil {
			f.OnOp(op, act.Errno)
		}
		f.mu.Unlock()
		return op, act, errno(string(kind), sub, act.Errno)
	case Kill:
		if f.OnFault != nil {
			f.OnFault("kill:"+string(kind), op)
		}
		f.kill(p) // does not return
	case Partial, TornKill:
		if kind != OpWrite {
			panic(HarnessError{"partial/torn action on non-write op " + op.String()})
		}
	}
	return op, act, nil
}

// kill freezes the process and terminates the calling goroutine. Called with f.mu held.
func (f *FS) kill(p *Proc) {
	p.Frozen = true
	p.Killed = true
	f.kills.Add(1)
	if f.LogOps {
		p.Log = append(p.Log, "  KILLED")
	}
	f.mu.Unlock()
	runtime.Goexit()
}

func (f *FS) end(op *Op, err error) {
	if f.OnOp != nil {
		f.OnOp(op, err)
	}
	f.mu.Unlock()
}

// RunProc runs fn as the body of a simulated process in its own goroutine and waits until it
// returned or was killed. Deferred functions of a killed process run (Goexit) but the disk
// ignores them (frozen), which is what a SIGKILL amounts to for the disk.
func RunProc(fn func()) *ProcPanic {
	done := make(chan *ProcPanic, 1)
	kills0 := killCount()
	go func() {
		finished := false
		defer func() {
			if finished {
				done <- nil
				return
			}
			if r := recover(); r != nil { // nil when Goexit
				if killCount() != kills0 {
					// a panic raised by deferred functions while a killed process unwinds is an
					// artefact of the kill model (a real SIGKILL runs no deferred functions)
					done <- nil
					return
				}
				done <- &ProcPanic{Val: r, Stack: debug.Stack()}
				return
			}
			done <- nil
		}()
		fn()
		finished = true
	}()
	return <-done
}

func killCount() int {
	f := current()
	if f == nil {
		return 0
	}
	// read without the lock: this runs in a deferred function of a simulated process and must
	// work when that process panicked inside an operation (lock held)
	return int(f.kills.Load())
}

// ProcPanic is a panic raised inside a simulated process, with the stack it was raised on.
type ProcPanic struct {
	Val   any
	Stack []byte
}

func (p *ProcPanic) Error() string { return fmt.Sprintf("panic in simulated process: %v", p.Val) }

// ---- tree inspection helpers for harnesses (not operations; never counted, never faulted) ----

// Walk lists all paths of a tree in sorted order with sizes ("d" suffix for directories).
func (f *FS) Walk(tree string) []string {
	f.mu.Lock()
	defer f.mu.Unlock()
	var out []string
	var rec func(n *inode, p string)
	rec = func(n *inode, p string) {
		names := make([]string, 0, len(n.ents))
		for k := range n.ents {
			names = append(names, k)
		}
		sort.Strings(names)
		for _, k := range names {
			c := n.ents[k]
			if c.dir {
				out = append(out, p+"/"+k+"/")
				rec(c, p+"/"+k)
			} else {
				out = append(out, fmt.Sprintf("%s/%s:%d", p, k, len(c.data)))
			}
		}
	}
	if t := f.trees[tree]; t != nil {
		rec(t, "")
	}
	return out
}

// Files lists the regular files below dir (tree-relative path) in sorted order.
func (f *FS) Files(tree, dir string) []string {
	f.mu.Lock()
	defer f.mu.Unlock()
	var out []string
	_, _, n, e := f.lookup(f.trees[tree], dir)
	if e != 0 || n == nil {
		return nil
	}
	var rec func(n *inode, p string)
	rec = func(n *inode, p string) {
		names := make([]string, 0, len(n.ents))
		for k := range n.ents {
			names = append(names, k)
		}
		sort.Strings(names)
		for _, k := range names {
			c := n.ents[k]
			if c.dir {
				rec(c, p+"/"+k)
			} else {
				out = append(out, p+"/"+k)
			}
		}
	}
	rec(n, strings.TrimSuffix(dir, "/"))
	return out
}

// Dirs lists directory names directly below dir.
func (f *FS) Dirs(tree, dir string) []string {
	f.mu.Lock()
	defer f.mu.Unlock()
	_, _, n, e := f.lookup(f.trees[tree], dir)
	if e != 0 || n == nil || !n.dir {
		return nil
	}
	var out []string
	for k, c := range n.ents {
		if c.dir {
			out = append(out, k)
		}
	}
	sort.Strings(out)
	return out
}

// ReadRaw returns a copy of a file's bytes (nil, false when missing).
func (f *FS) ReadRaw(tree, p string) ([]byte, bool) {
	f.mu.Lock()
	defer f.mu.Unlock()
	_, _, n, e := f.lookup(f.trees[tree], p)
	if e != 0 || n == nil || n.dir {
		return nil, false
	}
	return append([]byte(nil), n.data...), true
}

// WriteRaw replaces a file's bytes in place (same inode: open handles see it), creating it when
// missing. Used for stored-byte damage.
func (f *FS) WriteRaw(tree, p string, data []byte) {
	f.mu.Lock()
	defer f.mu.Unlock()
	parent, name, n, e := f.lookup(f.trees[tree], p)
	if e != 0 || parent == nil {
		panic(HarnessError{"WriteRaw: bad path " + p})
	}
	if n == nil {
		f.nextIno++
		n = &inode{id: f.nextIno, mode: 0o644}
		parent.ents[name] = n
	}
	n.data = append([]byte(nil), data...)
}

// RemoveRaw unlinks a path (file or whole directory).
func (f *FS) RemoveRaw(tree, p string) {
	f.mu.Lock()
	defer f.mu.Unlock()
	parent, name, n, e := f.lookup(f.trees[tree], p)
	if e != 0 || n == nil || parent == nil {
		return
	}
	delete(parent.ents, name)
}

// TreeHash is a canonical digest of a tree (names, kinds, contents).
func (f *FS) TreeHash(tree string) string {
	f.mu.Lock()
	defer f.mu.Unlock()
	var sb strings.Builder
	var rec func(n *inode, p string)
	rec = func(n *inode, p string) {
		names := make([]string, 0, len(n.ents))
		for k := range n.ents {
			names = append(names, k)
		}
		sort.Strings(names)
		for _, k := range names {
			c := n.ents[k]
			if c.dir {
				fmt.Fprintf(&sb, "%s/%s/\n", p, k)
				rec(c, p+"/"+k)
			} else {
				fmt.Fprintf(&sb, "%s/%s %d %x\n", p, k, len(c.data), fnv64(c.data))
			}
		}
	}
	if t := f.trees[tree]; t != nil {
		rec(t, "")
	}
	return fmt.Sprintf("%x", fnv64([]byte(sb.String())))
}

func fnv64(b []byte) uint64 {
	h := uint64(14695981039346656037)
	for _, c := range b {
		h ^= uint64(c)
		h *= 1099511628211
	}
	return h
}

// fileInfo implements fs.FileInfo and fs.DirEntry.
type fileInfo struct {
	name string
	size int64
	mode fs.FileMode
}

func (i fileInfo) Name() string               { return i.name }
func (i fileInfo) Size() int64                { return i.size }
func (i fileInfo) Mode() fs.FileMode          { return i.mode }
func (i fileInfo) ModTime() time.Time         { return time.Unix(0, 0) }
func (i fileInfo) IsDir() bool                { return i.mode.IsDir() }
func (i fileInfo) Sys() any                   { return nil }
func (i fileInfo) Type() fs.FileMode          { return i.mode.Type() }
func (i fileInfo) Info() (fs.FileInfo, error) { return i, nil }

func infoOf(name string, n *inode) fileInfo {
	if n.dir {
		return fileInfo{name: name, size: 4096, mode: n.mode | fs.ModeDir}
	}
	return fileInfo{name: name, size: int64(len(n.data)), mode: n.mode}
}
