package simfs

import (
	"errors"
	"fmt"
	"io"
	"io/fs"
	"os"
	"path"
	"path/filepath"
	"sort"
	"strings"
	"syscall"
)

// File is the simulated counterpart of *os.File.
type File struct {
	f      *FS
	p      *Proc
	n      *inode
	name   string // full path as given to open
	sub    string
	off    int64
	rd, wr bool
	app    bool
	closed bool
	real   *os.File // pass-through handle for paths outside the simulation
}

func linkErr(op, a, b string, e syscall.Errno) error {
	return &os.LinkError{Op: op, Old: a, New: b, Err: e}
}

func passthroughRO(what, p string) {
	panic(HarnessError{fmt.Sprintf("mutating call %s outside the simulated mounts: %s", what, p)})
}

// Open opens a file read-only.
func Open(name string) (*File, error) { return OpenFile(name, os.O_RDONLY, 0) }

// Create creates or truncates a file.
func Create(name string) (*File, error) {
	return OpenFile(name, os.O_RDWR|os.O_CREATE|os.O_TRUNC, 0o666)
}

// OpenFile is os.OpenFile.
func OpenFile(name string, flag int, perm fs.FileMode) (*File, error) {
	f := current()
	if f == nil {
		return openReal(name, flag, perm)
	}
	f.mu.Lock()
	p, sub, ok := f.split(name)
	f.mu.Unlock()
	if !ok {
		return openReal(name, flag, perm)
	}
	kind := OpOpen
	if flag&(os.O_CREATE|os.O_TRUNC) != 0 {
		kind = OpCreate
	}
	op, _, err := f.begin(p, kind, sub, "", 0)
	if err != nil {
		return nil, rewrap(err, "open", name)
	}
	parent, base, n, e := f.lookup(f.trees[p.tree], sub)
	if e != 0 {
		err = errno("open", name, e)
		f.end(op, err)
		return nil, err
	}
	acc := flag & (os.O_RDONLY | os.O_WRONLY | os.O_RDWR)
	wr := acc == os.O_WRONLY || acc == os.O_RDWR
	rd := acc == os.O_RDONLY || acc == os.O_RDWR
	if n == nil {
		if flag&os.O_CREATE == 0 {
			err = errno("open", name, syscall.ENOENT)
			f.end(op, err)
			return nil, err
		}
		f.nextIno++
		n = &inode{id: f.nextIno, mode: perm.Perm()}
		parent.ents[base] = n
	} else {
		if flag&os.O_CREATE != 0 && flag&os.O_EXCL != 0 {
			err = errno("open", name, syscall.EEXIST)
			f.end(op, err)
			return nil, err
		}
		if n.dir && wr {
			err = errno("open", name, syscall.EISDIR)
			f.end(op, err)
			return nil, err
		}
		if flag&os.O_TRUNC != 0 && !n.dir && wr {
			n.data = nil
		}
	}
	h := &File{f: f, p: p, n: n, name: name, sub: sub, rd: rd, wr: wr, app: flag&os.O_APPEND != 0}
	f.end(op, nil)
	return h, nil
}

func rewrap(err error, op, name string) error {
	var pe *fs.PathError
	if errors.As(err, &pe) {
		return &fs.PathError{Op: op, Path: name, Err: pe.Err}
	}
	return err
}

func openReal(name string, flag int, perm fs.FileMode) (*File, error) {
	if flag&(os.O_WRONLY|os.O_RDWR|os.O_CREATE|os.O_TRUNC|os.O_APPEND) != 0 {
		passthroughRO("OpenFile", name)
	}
	r, err := os.OpenFile(name, flag, perm)
	if err != nil {
		return nil, err
	}
	return &File{real: r, name: name}, nil
}

// tmpName derives a deterministic pseudo-random suffix (os.CreateTemp uses the runtime RNG).
func (f *FS) tmpName() string {
	f.tmpSeq++
	x := f.tmpSeq * 0x9e3779b97f4a7c15
	x ^= x >> 29
	return fmt.Sprintf("%010d", x%10000000000)
}

func tempPattern(pattern string) (prefix, suffix string) {
	if i := strings.LastIndexByte(pattern, '*'); i >= 0 {
		return pattern[:i], pattern[i+1:]
	}
	return pattern, ""
}

// CreateTemp is os.CreateTemp.
func CreateTemp(dir, pattern string) (*File, error) {
	f := current()
	if f == nil || !strings.HasPrefix(path.Clean(dir)+"/", Root) {
		passthroughRO("CreateTemp", dir)
	}
	prefix, suffix := tempPattern(pattern)
	for try := 0; try < 100; try++ {
		f.mu.Lock()
		nm := prefix + f.tmpName() + suffix
		f.mu.Unlock()
		h, err := OpenFile(path.Join(dir, nm), os.O_RDWR|os.O_CREATE|os.O_EXCL, 0o600)
		if errors.Is(err, fs.ErrExist) {
			continue
		}
		return h, err
	}
	return nil, errno("createtemp", dir, syscall.EEXIST)
}

// MkdirTemp is os.MkdirTemp.
func MkdirTemp(dir, pattern string) (string, error) {
	f := current()
	if f == nil || !strings.HasPrefix(path.Clean(dir)+"/", Root) {
		passthroughRO("MkdirTemp", dir)
	}
	prefix, suffix := tempPattern(pattern)
	for try := 0; try < 100; try++ {
		f.mu.Lock()
		nm := prefix + f.tmpName() + suffix
		f.mu.Unlock()
		full := path.Join(dir, nm)
		err := Mkdir(full, 0o700)
		if errors.Is(err, fs.ErrExist) {
			continue
		}
		if err != nil {
			return "", err
		}
		return full, nil
	}
	return "", errno("mkdirtemp", dir, syscall.EEXIST)
}

// Mkdir is os.Mkdir.
func Mkdir(name string, perm fs.FileMode) error {
	f := current()
	var p *Proc
	var sub string
	ok := false
	if f != nil {
		f.mu.Lock()
		p, sub, ok = f.split(name)
		f.mu.Unlock()
	}
	if !ok {
		passthroughRO("Mkdir", name)
	}
	op, _, err := f.begin(p, OpMkdir, sub, "", 0)
	if err != nil {
		return rewrap(err, "mkdir", name)
	}
	parent, base, n, e := f.lookup(f.trees[p.tree], sub)
	switch {
	case e != 0:
		err = errno("mkdir", name, e)
	case n != nil:
		err = errno("mkdir", name, syscall.EEXIST)
	case parent == nil:
		err = errno("mkdir", name, syscall.EEXIST)
	default:
		f.nextIno++
		parent.ents[base] = &inode{id: f.nextIno, dir: true, mode: fs.ModeDir | perm.Perm(), ents: map[string]*inode{}}
	}
	f.end(op, err)
	return err
}

// MkdirAll is os.MkdirAll: stat fast path, then one mkdir per missing component.
func MkdirAll(name string, perm fs.FileMode) error {
	name = path.Clean(name)
	fi, err := Stat(name)
	if err == nil {
		if fi.IsDir() {
			return nil
		}
		return errno("mkdir", name, syscall.ENOTDIR)
	}
	if !errors.Is(err, fs.ErrNotExist) && !errors.Is(err, syscall.ENOTDIR) {
		return err
	}
	parent := path.Dir(name)
	if parent != name && parent != "/" && parent != "." {
		if err := MkdirAll(parent, perm); err != nil {
			return err
		}
	}
	err = Mkdir(name, perm)
	if err != nil {
		// as os.MkdirAll: tolerate a concurrent creation
		if fi, serr := Stat(name); serr == nil && fi.IsDir() {
			return nil
		}
		return err
	}
	return nil
}

// Stat is os.Stat.
func Stat(name string) (fs.FileInfo, error) {
	f := current()
	var p *Proc
	var sub string
	ok := false
	if f != nil {
		f.mu.Lock()
		p, sub, ok = f.split(name)
		f.mu.Unlock()
	}
	if !ok {
		return os.Stat(name)
	}
	op, _, err := f.begin(p, OpStat, sub, "", 0)
	if err != nil {
		return nil, rewrap(err, "stat", name)
	}
	_, _, n, e := f.lookup(f.trees[p.tree], sub)
	if e != 0 || n == nil {
		if e == 0 {
			e = syscall.ENOENT
		}
		err = errno("stat", name, e)
		f.end(op, err)
		return nil, err
	}
	fi := infoOf(path.Base(name), n)
	f.end(op, nil)
	return fi, nil
}

// Lstat is os.Lstat (no symlinks in the model).
func Lstat(name string) (fs.FileInfo, error) { return Stat(name) }

// ReadDir is os.ReadDir (sorted by name).
func ReadDir(name string) ([]fs.DirEntry, error) {
	f := current()
	var p *Proc
	var sub string
	ok := false
	if f != nil {
		f.mu.Lock()
		p, sub, ok = f.split(name)
		f.mu.Unlock()
	}
	if !ok {
		return os.ReadDir(name)
	}
	op, _, err := f.begin(p, OpReadDir, sub, "", 0)
	if err != nil {
		return nil, rewrap(err, "open", name)
	}
	_, _, n, e := f.lookup(f.trees[p.tree], sub)
	switch {
	case e != 0:
		err = errno("open", name, e)
	case n == nil:
		err = errno("open", name, syscall.ENOENT)
	case !n.dir:
		err = errno("readdirent", name, syscall.ENOTDIR)
	}
	if err != nil {
		f.end(op, err)
		return nil, err
	}
	names := make([]string, 0, len(n.ents))
	for k := range n.ents {
		names = append(names, k)
	}
	sort.Strings(names)
	out := make([]fs.DirEntry, 0, len(names))
	for _, k := range names {
		out = append(out, infoOf(k, n.ents[k]))
	}
	f.end(op, nil)
	return out, nil
}

// ReadFile is os.ReadFile.
func ReadFile(name string) ([]byte, error) {
	f := current()
	var p *Proc
	var sub string
	ok := false
	if f != nil {
		f.mu.Lock()
		p, sub, ok = f.split(name)
		f.mu.Unlock()
	}
	if !ok {
		return os.ReadFile(name)
	}
	op, _, err := f.begin(p, OpReadFile, sub, "", 0)
	if err != nil {
		return nil, rewrap(err, "open", name)
	}
	_, _, n, e := f.lookup(f.trees[p.tree], sub)
	switch {
	case e != 0:
		err = errno("open", name, e)
	case n == nil:
		err = errno("open", name, syscall.ENOENT)
	case n.dir:
		err = errno("read", name, syscall.EISDIR)
	}
	if err != nil {
		f.end(op, err)
		return nil, err
	}
	data := append([]byte(nil), n.data...)
	f.end(op, nil)
	return data, nil
}

// WriteFile is os.WriteFile (open/trunc, write, close as separate operations).
func WriteFile(name string, data []byte, perm fs.FileMode) error {
	h, err := OpenFile(name, os.O_WRONLY|os.O_CREATE|os.O_TRUNC, perm)
	if err != nil {
		return err
	}
	_, err = h.Write(data)
	if cerr := h.Close(); cerr != nil && err == nil {
		err = cerr
	}
	return err
}

// Chmod is os.Chmod.
func Chmod(name string, mode fs.FileMode) error {
	f := current()
	var p *Proc
	var sub string
	ok := false
	if f != nil {
		f.mu.Lock()
		p, sub, ok = f.split(name)
		f.mu.Unlock()
	}
	if !ok {
		passthroughRO("Chmod", name)
	}
	op, _, err := f.begin(p, OpChmod, sub, "", 0)
	if err != nil {
		return rewrap(err, "chmod", name)
	}
	_, _, n, e := f.lookup(f.trees[p.tree], sub)
	if e != 0 || n == nil {
		if e == 0 {
			e = syscall.ENOENT
		}
		err = errno("chmod", name, e)
	} else {
		n.mode = n.mode&^fs.ModePerm | mode.Perm()
	}
	f.end(op, err)
	return err
}

// Truncate is os.Truncate.
func Truncate(name string, size int64) error {
	f := current()
	var p *Proc
	var sub string
	ok := false
	if f != nil {
		f.mu.Lock()
		p, sub, ok = f.split(name)
		f.mu.Unlock()
	}
	if !ok {
		passthroughRO("Truncate", name)
	}
	op, _, err := f.begin(p, OpTruncate, sub, "", 0)
	if err != nil {
		return rewrap(err, "truncate", name)
	}
	_, _, n, e := f.lookup(f.trees[p.tree], sub)
	switch {
	case e != 0 || n == nil:
		if e == 0 {
			e = syscall.ENOENT
		}
		err = errno("truncate", name, e)
	case n.dir:
		err = errno("truncate", name, syscall.EISDIR)
	case size < 0:
		err = errno("truncate", name, syscall.EINVAL)
	case size > MaxFileSize:
		err = errno("truncate", name, syscall.EFBIG)
	default:
		n.data = resize(n.data, size)
	}
	f.end(op, err)
	return err
}

// MaxFileSize is the maximum file size of the simulated file system (writes beyond it fail with
// EFBIG, as on a real file system; the real limits are larger, the behaviour is the same).
const MaxFileSize = 1 << 28

func resize(b []byte, size int64) []byte {
	if int64(len(b)) >= size {
		return b[:size]
	}
	return append(b, make([]byte, size-int64(len(b)))...)
}

func isAncestor(a, b *inode) bool { // is a an ancestor-or-self of b?
	if a == b {
		return true
	}
	if !a.dir {
		return false
	}
	for _, c := range a.ents {
		if isAncestor(c, b) {
			return true
		}
	}
	return false
}

// Rename is os.Rename with Go's Linux semantics (an existing directory target is EEXIST).
func Rename(oldname, newname string) error {
	f := current()
	var p, p2 *Proc
	var sub, sub2 string
	ok, ok2 := false, false
	if f != nil {
		f.mu.Lock()
		p, sub, ok = f.split(oldname)
		p2, sub2, ok2 = f.split(newname)
		f.mu.Unlock()
	}
	if !ok || !ok2 {
		passthroughRO("Rename", oldname+" -> "+newname)
	}
	if p.tree != p2.tree {
		return linkErr("rename", oldname, newname, syscall.EXDEV)
	}
	op, _, err := f.begin(p, OpRename, sub, sub2, 0)
	if err != nil {
		var pe *fs.PathError
		if errors.As(err, &pe) {
			return &os.LinkError{Op: "rename", Old: oldname, New: newname, Err: pe.Err}
		}
		return err
	}
	tree := f.trees[p.tree]
	sp, sname, sn, e1 := f.lookup(tree, sub)
	dp, dname, dn, e2 := f.lookup(tree, sub2)
	var en syscall.Errno
	switch {
	case dn != nil && e2 == 0 && dn.dir && (e1 != 0 || sn == nil):
		// Go checks the target first but reports the source error
		if e1 != 0 {
			en = e1
		} else {
			en = syscall.ENOENT
		}
	case dn != nil && e2 == 0 && dn.dir && (dn != sn || sub == sub2):
		en = syscall.EEXIST
	case e1 != 0:
		en = e1
	case e2 != 0:
		en = e2
	case sn == nil || sp == nil:
		en = syscall.ENOENT
	case dp == nil:
		en = syscall.EEXIST
	case dn == sn:
		en = 0 // same file: no-op
	case sn.dir && isAncestor(sn, dp):
		en = syscall.EINVAL
	case sn.dir && dn != nil && !dn.dir:
		en = syscall.ENOTDIR
	case !sn.dir && dn != nil && dn.dir:
		en = syscall.EISDIR
	}
	if en != 0 {
		err = linkErr("rename", oldname, newname, en)
		f.end(op, err)
		return err
	}
	if dn != sn {
		delete(sp.ents, sname)
		dp.ents[dname] = sn
	}
	f.end(op, nil)
	return nil
}

// Remove is os.Remove (unlink, or rmdir of an empty directory).
func Remove(name string) error {
	f := current()
	var p *Proc
	var sub string
	ok := false
	if f != nil {
		f.mu.Lock()
		p, sub, ok = f.split(name)
		f.mu.Unlock()
	}
	if !ok {
		passthroughRO("Remove", name)
	}
	op, _, err := f.begin(p, OpRemove, sub, "", 0)
	if err != nil {
		return rewrap(err, "remove", name)
	}
	parent, base, n, e := f.lookup(f.trees[p.tree], sub)
	switch {
	case e != 0:
		err = errno("remove", name, e)
	case n == nil:
		err = errno("remove", name, syscall.ENOENT)
	case parent == nil:
		err = errno("remove", name, syscall.EBUSY)
	case n.dir && len(n.ents) > 0:
		err = errno("remove", name, syscall.ENOTEMPTY)
	default:
		delete(parent.ents, base)
	}
	f.end(op, err)
	return err
}

// RemoveAll is os.RemoveAll: depth-first, one operation per unlink/rmdir.
func RemoveAll(name string) error {
	f := current()
	ok := false
	if f != nil {
		f.mu.Lock()
		_, _, ok = f.split(name)
		f.mu.Unlock()
	}
	if !ok {
		passthroughRO("RemoveAll", name)
	}
	err := Remove(name)
	if err == nil || errors.Is(err, fs.ErrNotExist) {
		return nil
	}
	if !errors.Is(err, syscall.ENOTEMPTY) {
		return err
	}
	ents, rerr := ReadDir(name)
	if rerr != nil {
		if errors.Is(rerr, fs.ErrNotExist) {
			return nil
		}
		return rerr
	}
	var first error
	for _, e := range ents {
		if cerr := RemoveAll(path.Join(name, e.Name())); cerr != nil && first == nil {
			first = cerr
		}
	}
	if first != nil {
		return first
	}
	err = Remove(name)
	if err == nil || errors.Is(err, fs.ErrNotExist) {
		return nil
	}
	return err
}

// ---- File methods ----

// Name returns the name given to open.
func (h *File) Name() string { return h.name }

// Read reads from the handle.
func (h *File) Read(b []byte) (int, error) {
	if h == nil {
		return 0, os.ErrInvalid
	}
	if h.real != nil {
		return h.real.Read(b)
	}
	f := h.f
	op, _, err := f.begin(h.p, OpRead, h.sub, "", len(b))
	if err != nil {
		return 0, rewrap(err, "read", h.name)
	}
	switch {
	case h.closed:
		err = errno("read", h.name, syscall.EBADF)
		err = &fs.PathError{Op: "read", Path: h.name, Err: fs.ErrClosed}
	case !h.rd:
		err = errno("read", h.name, syscall.EBADF)
	case h.n.dir:
		err = errno("read", h.name, syscall.EISDIR)
	}
	if err != nil {
		f.end(op, err)
		return 0, err
	}
	if len(b) == 0 {
		f.end(op, nil)
		return 0, nil
	}
	if h.off >= int64(len(h.n.data)) {
		f.end(op, io.EOF)
		return 0, io.EOF
	}
	want := len(b)
	if sr := f.ShortReads; sr != nil {
		if m := sr(op); m > 0 && m < want {
			want = m
		}
	}
	n := copy(b[:want], h.n.data[h.off:])
	h.off += int64(n)
	f.end(op, nil)
	return n, nil
}

// Write writes to the handle.
func (h *File) Write(b []byte) (int, error) {
	if h == nil {
		return 0, os.ErrInvalid
	}
	if h.real != nil {
		passthroughRO("Write", h.name)
	}
	f := h.f
	op, act, err := f.begin(h.p, OpWrite, h.sub, "", len(b))
	if err != nil {
		return 0, rewrap(err, "write", h.name)
	}
	switch {
	case h.closed:
		err = &fs.PathError{Op: "write", Path: h.name, Err: fs.ErrClosed}
	case !h.wr:
		err = errno("write", h.name, syscall.EBADF)
	}
	if err != nil {
		f.end(op, err)
		return 0, err
	}
	nw := len(b)
	if act.Kind == Partial || act.Kind == TornKill {
		if act.Bytes < nw {
			nw = act.Bytes
		}
		if nw < 0 {
			nw = 0
		}
	}
	if nw > 0 {
		if h.app {
			h.off = int64(len(h.n.data))
		}
		end := h.off + int64(nw)
		if end > MaxFileSize || end < 0 {
			// like a file system whose maximum file size is exceeded (a writer that seeks to a
			// garbage offset): nothing is written
			err := errno("write", h.name, syscall.EFBIG)
			f.end(op, err)
			return 0, err
		}
		if int64(len(h.n.data)) < end {
			h.n.data = resize(h.n.data, end)
		}
		copy(h.n.data[h.off:end], b[:nw])
		h.off = end
	}
	switch act.Kind {
	case TornKill:
		if f.OnFault != nil {
			f.OnFault("torn-write-kill", op)
		}
		f.kill(h.p)
	case Partial:
		if f.OnFault != nil {
			f.OnFault("partial-write", op)
		}
		err = errno("write", h.name, act.Errno)
		f.end(op, err)
		return nw, err
	}
	f.end(op, nil)
	return nw, nil
}

// Seek sets the offset.
func (h *File) Seek(offset int64, whence int) (int64, error) {
	if h == nil {
		return 0, os.ErrInvalid
	}
	if h.real != nil {
		return h.real.Seek(offset, whence)
	}
	f := h.f
	op, _, err := f.begin(h.p, OpSeek, h.sub, "", 0)
	if err != nil {
		return 0, rewrap(err, "seek", h.name)
	}
	if h.closed {
		err = &fs.PathError{Op: "seek", Path: h.name, Err: fs.ErrClosed}
		f.end(op, err)
		return 0, err
	}
	var base int64
	switch whence {
	case io.SeekStart:
	case io.SeekCurrent:
		base = h.off
	case io.SeekEnd:
		base = int64(len(h.n.data))
	default:
		err = errno("seek", h.name, syscall.EINVAL)
		f.end(op, err)
		return 0, err
	}
	if base+offset < 0 {
		err = errno("seek", h.name, syscall.EINVAL)
		f.end(op, err)
		return 0, err
	}
	h.off = base + offset
	f.end(op, nil)
	return h.off, nil
}

// Close closes the handle.
func (h *File) Close() error {
	if h == nil {
		return os.ErrInvalid
	}
	if h.real != nil {
		return h.real.Close()
	}
	f := h.f
	op, _, err := f.begin(h.p, OpClose, h.sub, "", 0)
	if err != nil {
		// a failed close still releases the descriptor
		h.closed = true
		return rewrap(err, "close", h.name)
	}
	if h.closed {
		err = &fs.PathError{Op: "close", Path: h.name, Err: fs.ErrClosed}
		f.end(op, err)
		return err
	}
	h.closed = true
	f.end(op, nil)
	return nil
}

// Stat is fstat.
func (h *File) Stat() (fs.FileInfo, error) {
	if h == nil {
		return nil, os.ErrInvalid
	}
	if h.real != nil {
		return h.real.Stat()
	}
	f := h.f
	op, _, err := f.begin(h.p, OpStat, h.sub, "", 0)
	if err != nil {
		return nil, rewrap(err, "stat", h.name)
	}
	if h.closed {
		err = &fs.PathError{Op: "stat", Path: h.name, Err: fs.ErrClosed}
		f.end(op, err)
		return nil, err
	}
	fi := infoOf(path.Base(h.name), h.n)
	f.end(op, nil)
	return fi, nil
}

// Sync is a no-op (the crash model is process kill, not power loss).
func (h *File) Sync() error {
	if h == nil {
		return os.ErrInvalid
	}
	if h.real != nil {
		return h.real.Sync()
	}
	return nil
}

// Truncate changes the size of the file.
func (h *File) Truncate(size int64) error {
	if h == nil {
		return os.ErrInvalid
	}
	if h.real != nil {
		passthroughRO("Truncate", h.name)
	}
	f := h.f
	op, _, err := f.begin(h.p, OpTruncate, h.sub, "", 0)
	if err != nil {
		return rewrap(err, "truncate", h.name)
	}
	if !h.wr {
		err = errno("truncate", h.name, syscall.EINVAL)
		f.end(op, err)
		return err
	}
	if size < 0 || size > MaxFileSize {
		err = errno("truncate", h.name, syscall.EFBIG)
		if size < 0 {
			err = errno("truncate", h.name, syscall.EINVAL)
		}
		f.end(op, err)
		return err
	}
	h.n.data = resize(h.n.data, size)
	f.end(op, nil)
	return nil
}

// ReadAt reads at an offset without moving the handle offset.
func (h *File) ReadAt(b []byte, off int64) (int, error) {
	if h == nil {
		return 0, os.ErrInvalid
	}
	if h.real != nil {
		return h.real.ReadAt(b, off)
	}
	f := h.f
	op, _, err := f.begin(h.p, OpRead, h.sub, "", len(b))
	if err != nil {
		return 0, rewrap(err, "read", h.name)
	}
	if off >= int64(len(h.n.data)) {
		f.end(op, io.EOF)
		return 0, io.EOF
	}
	n := copy(b, h.n.data[off:])
	f.end(op, nil)
	if n < len(b) {
		return n, io.EOF
	}
	return n, nil
}

// WriteString writes a string.
func (h *File) WriteString(s string) (int, error) { return h.Write([]byte(s)) }

// Fd is not supported.
func (h *File) Fd() uintptr { panic(HarnessError{"Fd() is not modelled"}) }

// Glob is filepath.Glob over the simulated tree (same algorithm as the standard library: the
// directory part is expanded first, every directory visited is stat-ed and listed through the
// simulated Stat / ReadDir, so each of them is an operation a fault or a kill can strike).
func Glob(pattern string) ([]string, error) {
	if _, err := filepath.Match(pattern, ""); err != nil {
		return nil, err
	}
	if !strings.ContainsAny(pattern, `*?[\`) {
		if _, err := Lstat(pattern); err != nil {
			return nil, nil
		}
		return []string{pattern}, nil
	}
	dir, file := filepath.Split(pattern)
	switch dir {
	case "":
		dir = "."
	case "/":
	default:
		dir = dir[:len(dir)-1]
	}
	if !strings.ContainsAny(dir, `*?[\`) {
		return globDir(dir, file, nil)
	}
	if dir == pattern {
		return nil, filepath.ErrBadPattern
	}
	parents, err := Glob(dir)
	if err != nil {
		return nil, err
	}
	var matches []string
	for _, d := range parents {
		if matches, err = globDir(d, file, matches); err != nil {
			return nil, err
		}
	}
	return matches, nil
}

func globDir(dir, pattern string, matches []string) ([]string, error) {
	fi, err := Stat(dir)
	if err != nil || !fi.IsDir() {
		return matches, nil // like the standard library: I/O errors are ignored
	}
	ents, err := ReadDir(dir)
	if err != nil {
		return matches, nil
	}
	for _, e := range ents {
		ok, merr := filepath.Match(pattern, e.Name())
		if merr != nil {
			return matches, merr
		}
		if ok {
			matches = append(matches, filepath.Join(dir, e.Name()))
		}
	}
	return matches, nil
}

// WriteAt writes at an offset without moving the handle offset (seek, write, seek back under
// one simulated write operation: a fault or kill strikes it like any other write).
func (h *File) WriteAt(b []byte, off int64) (int, error) {
	if h == nil {
		return 0, os.ErrInvalid
	}
	if h.real != nil {
		passthroughRO("WriteAt", h.name)
	}
	if h.app {
		return 0, errors.New("os: invalid use of WriteAt on file opened with O_APPEND")
	}
	saved := h.off
	h.off = off
	n, err := h.Write(b)
	h.off = saved
	return n, err
}

// Chmod changes the mode of the file (by path: the simulated tree keeps modes per inode).
func (h *File) Chmod(mode fs.FileMode) error {
	if h == nil {
		return os.ErrInvalid
	}
	if h.real != nil {
		passthroughRO("Chmod", h.name)
	}
	return Chmod(h.name, mode)
}

// ReadDir lists the directory the handle was opened on (n <= 0: all entries).
func (h *File) ReadDir(n int) ([]fs.DirEntry, error) {
	if h == nil {
		return nil, os.ErrInvalid
	}
	if h.real != nil {
		return h.real.ReadDir(n)
	}
	ents, err := ReadDir(h.name)
	if err != nil {
		return nil, err
	}
	if n > 0 && len(ents) > n {
		ents = ents[:n]
	}
	return ents, nil
}

// Readdirnames lists the names of the directory the handle was opened on.
func (h *File) Readdirnames(n int) ([]string, error) {
	ents, err := h.ReadDir(n)
	if err != nil {
		return nil, err
	}
	names := make([]string, len(ents))
	for i, e := range ents {
		names[i] = e.Name()
	}
	return names, nil
}

// WalkDir is filepath.WalkDir over the simulated tree (the algorithm of the standard library on
// top of Lstat and ReadDir; paths outside the simulated mounts reach the real file system through
// those two functions).
func WalkDir(root string, fn fs.WalkDirFunc) error {
	info, err := Lstat(root)
	if err != nil {
		err = fn(root, nil, err)
	} else {
		err = walkDir(root, fs.FileInfoToDirEntry(info), fn)
	}
	if err == filepath.SkipDir || err == filepath.SkipAll {
		return nil
	}
	return err
}

func walkDir(path string, d fs.DirEntry, fn fs.WalkDirFunc) error {
	if err := fn(path, d, nil); err != nil || !d.IsDir() {
		if err == filepath.SkipDir && d.IsDir() {
			err = nil
		}
		return err
	}
	dirs, err := ReadDir(path)
	if err != nil {
		err = fn(path, d, err)
		if err != nil {
			if err == filepath.SkipDir && d.IsDir() {
				err = nil
			}
			return err
		}
	}
	for _, d1 := range dirs {
		if err := walkDir(filepath.Join(path, d1.Name()), d1, fn); err != nil {
			if err == filepath.SkipDir {
				break
			}
			return err
		}
	}
	return nil
}

// Walk is filepath.Walk over the simulated tree.
func Walk(root string, fn filepath.WalkFunc) error {
	info, err := Lstat(root)
	if err != nil {
		err = fn(root, nil, err)
	} else {
		err = walk(root, info, fn)
	}
	if err == filepath.SkipDir || err == filepath.SkipAll {
		return nil
	}
	return err
}

func walk(path string, info fs.FileInfo, fn filepath.WalkFunc) error {
	if !info.IsDir() {
		return fn(path, info, nil)
	}
	entries, err := ReadDir(path)
	err1 := fn(path, info, err)
	if err != nil || err1 != nil {
		return err1
	}
	for _, e := range entries {
		filename := filepath.Join(path, e.Name())
		fileInfo, err := Lstat(filename)
		if err != nil {
			if err := fn(filename, fileInfo, err); err != nil && err != filepath.SkipDir {
				return err
			}
		} else {
			err = walk(filename, fileInfo, fn)
			if err != nil {
				if !fileInfo.IsDir() || err != filepath.SkipDir {
					return err
				}
			}
		}
	}
	return nil
}
